#!/usr/bin/env python3
"""Copy the confirmed seeded changes into /verif/seeded/<P>-<n>/ with patch, demonstration and meta.json."""
import json, os, shutil, sys
V = os.path.dirname(os.path.dirname(os.path.abspath(__file__)))
roots = [("/tmp/seed_out", ["/tmp/seed_confirm/results.json", "/tmp/seed_confirm2/results.json"]),
         ("/tmp/seed_out2", ["/tmp/seed_confirm2/results.json", "/tmp/seed_confirm3/results.json"])]
if len(sys.argv) > 1:
    # collect_seeds.py <detection root> [<root whose results.json holds the --confirm data>]  (later rounds)
    roots = [(sys.argv[1], [os.path.join(a, "results.json") for a in sys.argv[1:]])]
for root, confs in roots:
    if not os.path.exists(os.path.join(root, "results.json")):
        continue
    det = {(r["property"], r["n"]): r for r in json.load(open(os.path.join(root, "results.json")))}
    conf = {}
    for c in confs:
        if os.path.exists(c):
            for r in json.load(open(c)):
                if r.get("demo_with_bug") and any(d["passed"] + d["failed"] > 0 for d in r["demo_with_bug"]):
                    conf[(r["property"], r["n"])] = r
    for (P, n), r in sorted(det.items()):
        src = os.path.join(root, P, n)
        c = conf.get((P, n))
        if c is None:
            print("not confirmed yet:", P, n); continue
        dst = os.path.join(V, "seeded", "%s-%s" % (P, n))
        os.makedirs(dst, exist_ok=True)
        shutil.copy(os.path.join(src, "patch.diff"), os.path.join(dst, "patch.diff"))
        if os.path.exists(os.path.join(src, "demo.diff")):
            shutil.copy(os.path.join(src, "demo.diff"), os.path.join(dst, "demo.diff"))
        try:
            am = json.load(open(os.path.join(src, "meta.json")))
        except Exception:
            am = {}
        chk = r.get("checks", {}).get(P, {})
        meta = {
            "property": P,
            "written_by": "independent sub-agent given only the property text and a scratch worktree",
            "summary": am.get("summary"), "needs_to_manifest": am.get("needs"), "functions_touched": am.get("functions_touched"),
            "files_touched": r.get("touched"),
            "confirmed_by_me": {
                "how": "tools/seed_eval.py --confirm in a scratch worktree of /repo: apply patch.diff -> cargo test --workspace --no-fail-fast --offline; apply demo.diff -> cargo test -p <crate of the demo>; revert patch.diff -> same",
                "suite_with_bug": c.get("suite_with_bug"), "demo_with_bug": c.get("demo_with_bug"), "demo_without_bug": c.get("demo_without_bug"),
            },
            "detection": {"command": "VERIF_REPO=<patched scratch worktree> ./check %s --tier quick" % P, "exit_code": chk.get("rc"),
                          "detected": chk.get("rc") == 1, "output": chk.get("lines")},
        }
        json.dump(meta, open(os.path.join(dst, "meta.json"), "w"), indent=1)
        print(P, n, "detected" if chk.get("rc") == 1 else "MISSED rc=%s" % chk.get("rc"))
