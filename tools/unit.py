#!/usr/bin/env python3
"""developer helper: run one Verus unit and print the outcome   (tools/unit.py <unit>)"""
import os, sys
sys.path.insert(0, os.path.join(os.path.dirname(os.path.dirname(os.path.abspath(__file__))), "engine"))
import verus_unit
r = verus_unit.run_unit(sys.argv[1])
print("status", r.status, "verified", r.verified, "errors", r.errors, "reason", r.reason, "wall %.1fs" % r.wall_s)
for f in r.failures:
    print("FAIL", f.get("obligation"), f.get("kind"), f.get("message"))
    print(f.get("rendered", "")[:1500])
if r.status != "ok":
    pass
