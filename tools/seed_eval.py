#!/usr/bin/env python3
"""Evaluate seeded breaking changes (written by independent sub-agents) against the checks.

usage: seed_eval.py <seed_root> <scratch_worktree> [--confirm] [ids...]
For each <seed_root>/<P>/<n>/ : (optionally) confirm in the scratch worktree that the patch compiles, the suite passes
with it and the demo fails with / passes without it; then run `./check <P>` (and every other registered property
whose units read a touched file) with VERIF_REPO pointing at the patched scratch worktree. Writes results.json."""
import json, os, re, subprocess, sys, time

VERIF = os.path.dirname(os.path.dirname(os.path.abspath(__file__)))


def sh(cmd, cwd=None, env=None, timeout=3600):
    p = subprocess.run(cmd, shell=True, cwd=cwd, env=env, stdout=subprocess.PIPE, stderr=subprocess.STDOUT, text=True, timeout=timeout)
    return p.returncode, p.stdout


def suite(wt, pkg=None):
    cmd = "cargo test --no-fail-fast --offline " + ("-p %s" % pkg if pkg else "--workspace")
    if pkg == "texcraft-stdext":
        cmd += " --features color"   # the crate does not build on its own without it
    rc, out = sh(cmd + " 2>&1", cwd=wt)
    passed = sum(int(m) for m in re.findall(r"test result: \w+\. (\d+) passed", out))
    failed = sum(int(m) for m in re.findall(r"test result: \w+\. \d+ passed; (\d+) failed", out))
    compile_err = "error: could not compile" in out or re.search(r"^error(\[E\d+\])?:", out, re.M) is not None
    return {"passed": passed, "failed": failed, "compile_error": bool(compile_err and passed == 0), "rc": rc}


def pristine(wt):
    sh("git checkout -q -- . && git clean -fdq -e target", cwd=wt)


def main():
    root, wt = sys.argv[1], sys.argv[2]
    confirm = "--confirm" in sys.argv
    ids = [a for a in sys.argv[3:] if not a.startswith("--")]
    results = []
    out_path = os.path.join(root, "results.json")
    if os.path.exists(out_path):
        results = json.load(open(out_path))
    done = {(r["property"], r["n"]) for r in results}
    for P in sorted(os.listdir(root)):
        pd = os.path.join(root, P)
        if not os.path.isdir(pd) or (ids and P not in ids):
            continue
        for n in sorted(os.listdir(pd)):
            d = os.path.join(pd, n)
            if not os.path.exists(os.path.join(d, "patch.diff")) or (P, n) in done:
                continue
            r = {"property": P, "n": n, "dir": d}
            pristine(wt)
            rc, out = sh("git apply --check %s/patch.diff" % d, cwd=wt)
            if rc != 0:
                r["error"] = "patch does not apply: " + out[-300:]
                results.append(r); continue
            touched = re.findall(r"^\+\+\+ b/(\S+)", open(os.path.join(d, "patch.diff")).read(), re.M)
            r["touched"] = touched
            sh("git apply %s/patch.diff" % d, cwd=wt)
            if confirm:
                r["suite_with_bug"] = suite(wt)
                demo = os.path.join(d, "demo.diff")
                if os.path.exists(demo):
                    dfiles = re.findall(r"^\+\+\+ b/(\S+)", open(demo).read(), re.M)
                    crates = sorted({f.split("/")[1] for f in dfiles if f.startswith("crates/")})
                    pkgs = []
                    for c in crates:
                        m = re.search(r'^name\s*=\s*"([^"]+)"', open(os.path.join(wt, "crates", c, "Cargo.toml")).read(), re.M)
                        pkgs.append(m.group(1))
                    sh("git apply %s" % demo, cwd=wt)
                    r["demo_with_bug"] = [suite(wt, p) for p in pkgs]
                    sh("git apply -R %s/patch.diff" % d, cwd=wt)
                    r["demo_without_bug"] = [suite(wt, p) for p in pkgs]
                    pristine(wt)
                    sh("git apply %s/patch.diff" % d, cwd=wt)
            # run checks against the patched worktree
            env = dict(os.environ)
            env["VERIF_REPO"] = wt
            env["VERIF_BUILD"] = "/var/tmp/verif-seed-build"
            env["VERIF_EVID"] = "/var/tmp/verif-seed-evid"
            env["VERIF_REPLAYS"] = "/var/tmp/verif-seed-replays"
            os.makedirs(env["VERIF_EVID"], exist_ok=True)
            props = [P] + [x for x in os.environ.get("SEED_EXTRA_PROPS", "").split(",") if x]
            if os.environ.get("SEED_SKIP_CHECKS"):
                props = []
            r["checks"] = {}
            for q in props:
                t0 = time.time()
                rc, out = sh("./check %s --tier quick" % q, cwd=VERIF, env=env, timeout=3000)
                r["checks"][q] = {"rc": rc, "wall_s": round(time.time() - t0, 1),
                                  "lines": [l for l in out.split("\n") if re.match(r"VIOLATION|UNDECIDED|KNOWN-FINDING|OK |failed obligation|  at |  failing input", l)][:12]}
            pristine(wt)
            results.append(r)
            json.dump(results, open(out_path, "w"), indent=1)
            print(P, n, {q: c["rc"] for q, c in r["checks"].items()}, r.get("suite_with_bug"), flush=True)
    json.dump(results, open(out_path, "w"), indent=1)


main()
