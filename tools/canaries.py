#!/usr/bin/env python3
"""developer helper: run every canary of one unit (each must NOT verify)   (tools/canaries.py <unit>)"""
import json, os, sys
import concurrent.futures as cf
ROOT = os.path.dirname(os.path.dirname(os.path.abspath(__file__)))
sys.path.insert(0, os.path.join(ROOT, "engine"))
import verus_unit
u = sys.argv[1]
cans = json.load(open(os.path.join(ROOT, "units", u, "canaries.json")))
with cf.ThreadPoolExecutor(max_workers=6) as ex:
    for c, r in zip(cans, ex.map(lambda c: verus_unit.run_unit(u, c, (), "canary_" + c["name"]), cans)):
        print("%-40s %s %s" % (c["name"], r.status, "OK (refuted)" if r.status in ("fail", "rlimit") else "BAD: " + r.reason[:200]))
