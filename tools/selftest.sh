#!/bin/sh
# run every registered quick check on the current tree; print one line per property; exit non-zero if any is not OK
cd "$(dirname "$0")/.." || exit 2
rc=0
for p in $(python3 -c "import json;print(' '.join(c['property_id'] for c in json.load(open('MANIFEST.json'))['checks']))"); do
  out=$(./check "$p" 2>&1); e=$?
  echo "$p exit=$e $(echo "$out" | tail -1)"
  [ $e -ne 0 ] && rc=1
done
exit $rc
