// Bounded stand-in for Values::update / VarRemover (property C16, "rewriting a DVI stream to avoid the w,x,y,z variables
// leaves the page position and font of every typeset character and rule, and every other operation, unchanged"):
// every operation sequence of length <= 5 over 17 operation templates (all four variables, push/pop unbalanced across
// pages, page starts, rules, characters, font changes), interpreted by an INDEPENDENT position tracker written from the
// DVI standard (TeX.2021.585-590), before and after the transform.
use crate::*;

#[derive(Clone, Default, PartialEq, Debug)]
struct Pos { h: i64, hchars: Vec<(u32, u32)>, v: i64, w: i64, x: i64, y: i64, z: i64 }

#[derive(Default)]
struct Tracker { p: Pos, stack: Vec<Pos>, f: u32, page: u32 }

/// what an output device sees
#[derive(PartialEq, Debug, Clone)]
enum Seen { Char(u32, u32, i64, Vec<(u32, u32)>, i64, u32), Rule(i32, i32, i64, Vec<(u32, u32)>, i64, u32), Other(String) }

impl Tracker {
    fn step(&mut self, op: &Op) -> Option<Seen> {
        match op {
            Op::TypesetChar { char, move_h } => {
                let s = Seen::Char(*char, self.f, self.p.h, self.p.hchars.clone(), self.p.v, self.page);
                if *move_h { self.p.hchars.push((*char, self.f)); }
                Some(s)
            }
            Op::TypesetRule { height, width, move_h } => {
                let s = Seen::Rule(*height, *width, self.p.h, self.p.hchars.clone(), self.p.v, self.page);
                if *move_h { self.p.h += *width as i64; }
                Some(s)
            }
            Op::BeginPage { .. } => { self.p = Pos::default(); self.stack.clear(); self.page += 1; Some(Seen::Other(format!("{op:?}"))) }
            Op::Push => { self.stack.push(self.p.clone()); Some(Seen::Other("Push".into())) }
            Op::Pop => { if let Some(p) = self.stack.pop() { self.p = p; } Some(Seen::Other("Pop".into())) }
            Op::Right(d) => { self.p.h += *d as i64; None }
            Op::Down(d) => { self.p.v += *d as i64; None }
            Op::Move(var) => { match var { Var::W => self.p.h += self.p.w, Var::X => self.p.h += self.p.x, Var::Y => self.p.v += self.p.y, Var::Z => self.p.v += self.p.z }; None }
            Op::SetVar(var, i) => { let i = *i as i64; match var { Var::W => { self.p.w = i; self.p.h += i } Var::X => { self.p.x = i; self.p.h += i } Var::Y => { self.p.y = i; self.p.v += i } Var::Z => { self.p.z = i; self.p.v += i } }; None }
            Op::EnableFont(f) => { self.f = *f; Some(Seen::Other(format!("{op:?}"))) }
            other => Some(Seen::Other(format!("{other:?}"))),
        }
    }
}

fn observe(ops: &[Op]) -> Vec<Seen> {
    let mut t = Tracker::default();
    // positions matter only where something is typeset; Push/Pop are compared as operations AND through the positions
    // of whatever is typeset later
    ops.iter().filter_map(|op| t.step(op)).collect()
}

fn templates() -> Vec<Op> {
    vec![
        Op::SetVar(Var::W, 3), Op::SetVar(Var::X, -5), Op::SetVar(Var::Y, 7), Op::SetVar(Var::Z, -11), Op::SetVar(Var::W, 0),
        Op::Move(Var::W), Op::Move(Var::X), Op::Move(Var::Y), Op::Move(Var::Z),
        Op::Push, Op::Pop, Op::BeginPage { parameters: [0; 10], previous_begin_page: -1 }, Op::EndPage,
        Op::Right(2), Op::Down(-4), Op::TypesetRule { height: 1, width: 13, move_h: true }, Op::TypesetChar { char: 65, move_h: true },
    ]
}

#[test]
fn var_remover_positions() {
    let ts = templates();
    let n = ts.len();
    for len in 1..=5usize {
        let mut idx = vec![0usize; len];
        loop {
            let mut ops: Vec<Op> = idx.iter().map(|&i| ts[i].clone()).collect();
            // always end by typesetting something so the final position is observed
            ops.push(Op::TypesetChar { char: 66, move_h: false });
            ops.push(Op::EnableFont(9));
            ops.push(Op::TypesetRule { height: 2, width: 2, move_h: false });
            let out: Vec<Op> = transforms::VarRemover::new(ops.clone()).collect();
            let uses_vars = out.iter().any(|o| matches!(o, Op::Move(_) | Op::SetVar(_, _)));
            let same_len = out.len() == ops.len();
            let others_same = same_len && ops.iter().zip(out.iter()).all(|(a, b)| matches!(a, Op::Move(_) | Op::SetVar(_, _)) || a == b);
            if uses_vars || !others_same || observe(&ops) != observe(&out) {
                println!("WITNESS {{\"fn\": \"next\", \"unit_fns\": [\"next\", \"update\"], \"input_ops\": \"{:?}\", \"output_ops\": \"{:?}\", \"observed\": \"{}\", \"expected\": \"same position and font at every typeset character/rule, every other operation unchanged, no w/x/y/z left\"}}",
                    ops, out, if uses_vars { "variables remain" } else if !others_same { "a non-variable operation was changed" } else { "positions differ" });
                return;
            }
            let mut p = 0;
            loop { if p == len { break; } idx[p] += 1; if idx[p] < n { break; } idx[p] = 0; p += 1; }
            if p == len { break; }
        }
    }
}

// ---------------------------------------------------------------- string / blob forms (bounded stand-in for C16)
// The Kani harnesses for xxx1-4, fnt_def1-4, pre and post_post do not finish (String::from_utf8_lossy under CBMC), so
// these forms are exercised here instead: decode(encode(op) ++ suffix) == (op, suffix), re-encoding is the identity,
// the operand width is minimal, and every proper prefix of an encoding is reported as truncated - never a panic.
struct Lcg(u64);
impl Lcg { fn next(&mut self) -> u64 { self.0 = self.0.wrapping_mul(6364136223846793005).wrapping_add(1442695040888963407); self.0 >> 33 } }

fn check_form(op: &Op, expect_len: usize, what: &str) -> bool {
    let mut b = vec![];
    op.serialize(&mut b);
    let mut fail = |obs: String| {
        println!("WITNESS {{\"fn\": \"serialize\", \"unit_fns\": [\"serialize\", \"deserialize\"], \"op\": \"{}\", \"observed\": \"{}\", \"expected\": \"decode(encode(op) ++ suffix) == (op, suffix) with the minimal operand width\"}}", what, obs.replace('"', "'"));
        false
    };
    if b.len() != expect_len { return fail(format!("encoded in {} bytes, minimal is {expect_len}", b.len())); }
    let n = b.len();
    b.extend([0xAB, 0xCD]);
    match std::panic::catch_unwind(|| Op::deserialize(&b).map(|o| o.map(|(op, rest)| (op, rest.to_vec())))) {
        Err(_) => return fail("decoder panicked".into()),
        Ok(Ok(Some((got, rest)))) => {
            if &got != op { return fail(format!("decoded a different operation: {:?}", got).chars().take(200).collect()); }
            if rest != [0xAB, 0xCD] { return fail("wrong suffix".into()); }
        }
        Ok(other) => return fail(format!("{:?}", other).chars().take(200).collect()),
    }
    // every proper prefix: an error (truncated), not a panic and not a different operation
    for cut in [1usize, 2, n / 2, n - 1] {
        if cut == 0 || cut >= n { continue; }
        let pre = b[..cut].to_vec();
        match std::panic::catch_unwind(move || Op::deserialize(&pre).map(|o| o.is_some())) {
            Err(_) => return fail(format!("decoder panicked on the first {cut} bytes")),
            Ok(Ok(true)) => return fail(format!("the first {cut} of {n} bytes decode as an operation")),
            _ => {}
        }
    }
    true
}

#[test]
fn string_forms() {
    std::panic::set_hook(Box::new(|_| {}));
    let mut r = Lcg(7);
    let mut ascii = |r: &mut Lcg, n: usize| -> String { (0..n).map(|_| (32 + (r.next() % 95) as u8) as char).collect() };
    let mut n_cases = 0u64;
    // xxx: every length 0..=300, then the 2- and 3-byte length boundaries
    for len in (0..=300usize).chain([65535, 65536, 70000]) {
        let data: Vec<u8> = ascii(&mut r, len).into_bytes();
        let width = if len < 256 { 1 } else if len < 65536 { 2 } else if len < (1 << 24) { 3 } else { 4 };
        n_cases += 1;
        if !check_form(&Op::Extension(data), 1 + width + len, &format!("Extension of {len} bytes")) { return; }
    }
    // fnt_def: area / name lengths over the whole byte range (sampled pairs), font numbers at every width boundary
    for (al, nl) in (0..=255usize).map(|a| (a, (a * 7 + 3) % 256)).chain([(0, 0), (255, 255), (0, 255), (255, 0)]) {
        for number in [0u32, 255, 256, 65535, 65536, (1 << 24) - 1, 1 << 24, u32::MAX] {
            let width = if number < 256 { 1 } else if number < 65536 { 2 } else if number < (1 << 24) { 3 } else { 4 };
            let op = Op::DefineFont { number, checksum: r.next() as u32, at_size: r.next() as u32, design_size: r.next() as u32, area: ascii(&mut r, al), name: ascii(&mut r, nl) };
            n_cases += 1;
            if !check_form(&op, 1 + width + 12 + 2 + al + nl, &format!("DefineFont number {number} area {al} name {nl}")) { return; }
        }
    }
    // pre: every comment length
    for len in 0..=255usize {
        let op = Op::Preamble { dvi_format: (r.next() % 256) as u8, unit_numerator: r.next() as u32, unit_denominator: r.next() as u32, magnification: r.next() as u32, comment: ascii(&mut r, len) };
        n_cases += 1;
        if !check_form(&op, 15 + len, &format!("Preamble with a comment of {len} bytes")) { return; }
    }
    println!("STATS {{\"driver\": \"dvi string forms\", \"cases\": {n_cases}}}");
}
