// Bounded stand-in for Values::update / VarRemover (property C16, "rewriting a DVI stream to avoid the w,x,y,z variables
// leaves the page position and font of every typeset character and rule, and every other operation, unchanged"):
// every operation sequence of length <= 5 over 17 operation templates (all four variables, push/pop unbalanced across
// pages, page starts, rules, characters, font changes), interpreted by an INDEPENDENT position tracker written from the
// DVI standard (TeX.2021.585-590), before and after the transform.
use crate::*;

#[derive(Clone, Default, PartialEq, Debug)]
struct Pos { h: i64, hchars: Vec<(u32, u32)>, v: i64, w: i64, x: i64, y: i64, z: i64 }

#[derive(Default)]
struct Tracker { p: Pos, stack: Vec<Pos>, f: u32, page: u32 }

/// what an output device sees
#[derive(PartialEq, Debug, Clone)]
enum Seen { Char(u32, u32, i64, Vec<(u32, u32)>, i64, u32), Rule(i32, i32, i64, Vec<(u32, u32)>, i64, u32), Other(String) }

impl Tracker {
    fn step(&mut self, op: &Op) -> Option<Seen> {
        match op {
            Op::TypesetChar { char, move_h } => {
                let s = Seen::Char(*char, self.f, self.p.h, self.p.hchars.clone(), self.p.v, self.page);
                if *move_h { self.p.hchars.push((*char, self.f)); }
                Some(s)
            }
            Op::TypesetRule { height, width, move_h } => {
                let s = Seen::Rule(*height, *width, self.p.h, self.p.hchars.clone(), self.p.v, self.page);
                if *move_h { self.p.h += *width as i64; }
                Some(s)
            }
            Op::BeginPage { .. } => { self.p = Pos::default(); self.stack.clear(); self.page += 1; Some(Seen::Other(format!("{op:?}"))) }
            Op::Push => { self.stack.push(self.p.clone()); Some(Seen::Other("Push".into())) }
            Op::Pop => { if let Some(p) = self.stack.pop() { self.p = p; } Some(Seen::Other("Pop".into())) }
            Op::Right(d) => { self.p.h += *d as i64; None }
            Op::Down(d) => { self.p.v += *d as i64; None }
            Op::Move(var) => { match var { Var::W => self.p.h += self.p.w, Var::X => self.p.h += self.p.x, Var::Y => self.p.v += self.p.y, Var::Z => self.p.v += self.p.z }; None }
            Op::SetVar(var, i) => { let i = *i as i64; match var { Var::W => { self.p.w = i; self.p.h += i } Var::X => { self.p.x = i; self.p.h += i } Var::Y => { self.p.y = i; self.p.v += i } Var::Z => { self.p.z = i; self.p.v += i } }; None }
            Op::EnableFont(f) => { self.f = *f; Some(Seen::Other(format!("{op:?}"))) }
            other => Some(Seen::Other(format!("{other:?}"))),
        }
    }
}

fn observe(ops: &[Op]) -> Vec<Seen> {
    let mut t = Tracker::default();
    // positions matter only where something is typeset; Push/Pop are compared as operations AND through the positions
    // of whatever is typeset later
    ops.iter().filter_map(|op| t.step(op)).collect()
}

fn templates() -> Vec<Op> {
    vec![
        Op::SetVar(Var::W, 3), Op::SetVar(Var::X, -5), Op::SetVar(Var::Y, 7), Op::SetVar(Var::Z, -11), Op::SetVar(Var::W, 0),
        Op::Move(Var::W), Op::Move(Var::X), Op::Move(Var::Y), Op::Move(Var::Z),
        Op::Push, Op::Pop, Op::BeginPage { parameters: [0; 10], previous_begin_page: -1 }, Op::EndPage,
        Op::Right(2), Op::Down(-4), Op::TypesetRule { height: 1, width: 13, move_h: true }, Op::TypesetChar { char: 65, move_h: true },
    ]
}

#[test]
fn var_remover_positions() {
    let ts = templates();
    let n = ts.len();
    for len in 1..=5usize {
        let mut idx = vec![0usize; len];
        loop {
            let mut ops: Vec<Op> = idx.iter().map(|&i| ts[i].clone()).collect();
            // always end by typesetting something so the final position is observed
            ops.push(Op::TypesetChar { char: 66, move_h: false });
            ops.push(Op::EnableFont(9));
            ops.push(Op::TypesetRule { height: 2, width: 2, move_h: false });
            let out: Vec<Op> = transforms::VarRemover::new(ops.clone()).collect();
            let uses_vars = out.iter().any(|o| matches!(o, Op::Move(_) | Op::SetVar(_, _)));
            let same_len = out.len() == ops.len();
            let others_same = same_len && ops.iter().zip(out.iter()).all(|(a, b)| matches!(a, Op::Move(_) | Op::SetVar(_, _)) || a == b);
            if uses_vars || !others_same || observe(&ops) != observe(&out) {
                println!("WITNESS {{\"fn\": \"next\", \"unit_fns\": [\"next\", \"update\"], \"input_ops\": \"{:?}\", \"output_ops\": \"{:?}\", \"observed\": \"{}\", \"expected\": \"same position and font at every typeset character/rule, every other operation unchanged, no w/x/y/z left\"}}",
                    ops, out, if uses_vars { "variables remain" } else if !others_same { "a non-variable operation was changed" } else { "positions differ" });
                return;
            }
            let mut p = 0;
            loop { if p == len { break; } idx[p] += 1; if idx[p] < n { break; } idx[p] = 0; p += 1; }
            if p == len { break; }
        }
    }
}
