// Bounded stand-in (NOT a proof) for the whole-file clauses of C10 and C11 that neither verifier reaches (the readers
// build BTreeMaps / HashMaps / Strings): generated .tfm files - a valid header over small section sizes, section words
// drawn from a deterministic PRNG biased towards small values and valid indices - and mutilated property-list texts go
// through the real tftopl / pltotf algorithms.
//   C10: neither direction panics, whatever the bytes / the text.
//   C11: when a file converts without any warning, PL -> TFM gives a canonical file on which a further round trip is
//        the byte-for-byte identity and raises no warning.
use crate::algorithms::{pl_to_tfm, tfm_to_pl};

struct Rng(u64);
impl Rng {
    fn next(&mut self) -> u64 { self.0 ^= self.0 << 13; self.0 ^= self.0 >> 7; self.0 ^= self.0 << 17; self.0 }
    fn below(&mut self, n: u64) -> u64 { self.next() % n }
    /// a 32-bit word: mostly small numbers / small bytes, sometimes anything
    fn word(&mut self) -> u32 {
        match self.below(6) {
            0 => self.next() as u32,
            1 => 0,
            2 => (self.below(8) as u32) << 24 | (self.below(8) as u32) << 16 | (self.below(8) as u32) << 8 | self.below(8) as u32,
            3 => (self.below(256) as u32) << 24 | (self.below(4) as u32) << 16 | (self.below(256) as u32) << 8 | self.below(12) as u32,
            4 => self.below(1 << 20) as u32,
            _ => (self.below(1 << 20) as u32).wrapping_neg(),
        }
    }
}

fn gen_tfm(r: &mut Rng) -> Vec<u8> {
    // header lengths: the 18 words TFtoPL names, shorter ones, a few extra words, and (rarely) more than 256 words
    let lh = match r.below(16) { 0..=4 => 18, 5 | 6 => 12 + r.below(8) as u16, 7 | 8 => 19 + r.below(4) as u16, 9 if r.below(3) == 0 => 250 + r.below(60) as u16, _ => 2 + r.below(3) as u16 };
    let bc = r.below(6) as u16 + if r.below(4) == 0 { 60 } else { 0 };
    let nchars = r.below(7) as u16;
    let (bc, ec) = if nchars == 0 { (1, 0) } else { (bc, bc + nchars - 1) };
    let nw = 1 + r.below(4) as u16; let nh = 1 + r.below(3) as u16; let nd = 1 + r.below(3) as u16; let ni = 1 + r.below(3) as u16;
    let nl = r.below(10) as u16; let nk = r.below(4) as u16; let ne = r.below(3) as u16; let np = r.below(9) as u16;
    let lf = 6 + lh + nchars + nw + nh + nd + ni + nl + nk + ne + np;
    let mut b: Vec<u8> = vec![];
    for v in [lf, lh, bc, ec, nw, nh, nd, ni, nl, nk, ne, np] { b.extend(v.to_be_bytes()); }
    // header: checksum, design size (a plausible fix_word most of the time), then anything
    b.extend(r.word().to_be_bytes());
    let ds: u32 = if r.below(5) == 0 { r.word() } else { (1 + r.below(40) as u32) << 20 };
    b.extend(ds.to_be_bytes());
    for _ in 2..lh { b.extend(r.word().to_be_bytes()); }
    // char_info words: indices mostly inside the tables
    for _ in 0..nchars {
        let w = r.below(nw as u64 + 1) as u8; let h = r.below(nh as u64 + 1) as u8; let d = r.below(nd as u64 + 1) as u8; let i = r.below(ni as u64 + 1) as u8;
        let tag = r.below(4) as u8; let rem = r.below(12) as u8;
        b.extend([w, (h << 4) | (d & 15), (i << 2) | tag, rem]);
    }
    // dimension tables: first entry zero most of the time (as the format requires), the rest small fix_words
    for n in [nw, nh, nd, ni] { for k in 0..n {
        let v: u32 = if k == 0 && r.below(8) != 0 { 0 } else if r.below(6) == 0 { r.word() } else { r.below(1 << 22) as u32 };
        b.extend(v.to_be_bytes());
    } }
    for _ in 0..nl {
        let skip = match r.below(5) { 0 => 128, 1 => r.below(256) as u8, 2 => 255, _ => r.below(3) as u8 };
        let next = (bc + r.below(nchars as u64 + 2) as u16) as u8;
        let op = match r.below(4) { 0 => 128 + r.below(3) as u8, 1 => r.below(256) as u8, _ => r.below(12) as u8 };
        let rem = (bc + r.below(nchars as u64 + 2) as u16) as u8;
        b.extend([skip, next, op, rem]);
    }
    for _ in 0..nk { b.extend((r.below(1 << 21) as u32).to_be_bytes()); }
    for _ in 0..ne { for _ in 0..4 { b.push((bc + r.below(nchars as u64 + 2) as u16) as u8); } }
    for _ in 0..np { b.extend((r.below(1 << 22) as u32).to_be_bytes()); }
    // sometimes damage the file: truncate, extend, or flip a byte
    match r.below(10) {
        0 => { let n = r.below(b.len() as u64 + 1) as usize; b.truncate(n); }
        1 => { b.extend([0, 0, 0, 0]); }
        2 => { let n = r.below(b.len() as u64) as usize; b[n] ^= 1 << r.below(8); }
        _ => {}
    }
    b
}

/// the property list without what a canonical file legitimately changes: the header fields PLtoTF fills with defaults
/// when the original header was short, and unreachable lig/kern instructions (printed by TFtoPL as a comment)
fn font_description(pl: &str) -> String {
    let mut out: Vec<&str> = vec![];
    let mut skip_indent: Option<usize> = None;
    for l in pl.lines() {
        let indent = l.len() - l.trim_start().len();
        if let Some(i) = skip_indent {
            if l.trim() == ")" && indent == i + 3 { skip_indent = None; }
            continue;
        }
        if l.trim() == "(COMMENT THIS PART OF THE PROGRAM IS NEVER USED!" { skip_indent = Some(indent); continue; }
        if ["(FAMILY UNSPECIFIED)", "(FACE F MRR)", "(CODINGSCHEME UNSPECIFIED)", "(SEVENBITSAFEFLAG TRUE)"].contains(&l.trim()) { continue; }
        out.push(l);
    }
    // (a lig table of which nothing is reachable disappears altogether)
    out.join("\n").replace("(LIGTABLE\n   )\n", "")
}
/// a well-formed file: every index inside its table, every referenced character present, zero first table entries,
/// lig/kern chains that stop - so that TFtoPL has nothing to complain about and the C11 clauses apply
fn gen_clean_tfm(r: &mut Rng) -> Vec<u8> {
    // one file in 40 fills the dimension tables to their limits: 255 characters with 255 distinct widths, 15 / 15 / 63
    // distinct non-zero heights / depths / italic corrections (compress must leave them alone)
    let full = r.below(40) == 0;
    let lh = match r.below(8) { 0 | 1 => 2u16, 2 => 12 + r.below(6) as u16, 3 => 17, 4 | 5 => 18, 6 => 19 + r.below(3) as u16, _ => if r.below(6) == 0 { 257 + r.below(40) as u16 } else { 18 } };
    // one file in 5 spreads a few characters over a long range of codes (most codes absent), so that 7-bit and 8-bit
    // characters meet in lig/kern steps, next-larger links and extensible recipes
    let spread = !full && r.below(5) == 0;
    let bc = if full { 0 } else if spread { 100 + r.below(20) as u16 } else { r.below(4) as u16 + if r.below(3) == 0 { 65 } else { 0 } };
    let nchars = if full { 255 } else if spread { 60 + r.below(60) as u16 } else { 1 + r.below(6) as u16 };
    // (which codes of the range exist: all of them unless `spread`)
    let present: Vec<bool> = (0..nchars).map(|k| !spread || k == 0 || k + 1 == nchars || r.below(9) == 0).collect();
    let ec = bc + nchars - 1;
    let (nw, nh, nd, ni) = if full { (256u16, 16u16, 16u16, 64u16) } else { (2 + r.below(3) as u16, 1 + r.below(3) as u16, 1 + r.below(3) as u16, 1 + r.below(3) as u16) };
    let nl = r.below(9) as u16; let nk = if nl > 0 { 1 + r.below(3) as u16 } else { 0 }; let ne = r.below(3) as u16; let np = r.below(9) as u16;
    let lf = 6 + lh + nchars + nw + nh + nd + ni + nl + nk + ne + np;
    let mut b: Vec<u8> = vec![];
    for v in [lf, lh, bc, ec, nw, nh, nd, ni, nl, nk, ne, np] { b.extend(v.to_be_bytes()); }
    b.extend(r.word().to_be_bytes());
    b.extend(((1 + r.below(40) as u32) << 20).to_be_bytes());
    // header words 2..: CODINGSCHEME (10 words, a BCPL string of at most 39 characters), FAMILY (5 words, at most 19),
    // SEVENBITSAFEFLAG + two unused bytes + FACE, then arbitrary extra words; the strings are often of FULL length
    let mut hdr: Vec<u8> = vec![];
    let bcpl = |r: &mut Rng, area: usize| -> Vec<u8> {
        let max = area - 1;
        let len = match r.below(4) { 0 => max, 1 => max - 1, 2 => 0, _ => r.below(max as u64 + 1) as usize };
        let mut v = vec![len as u8];
        for k in 0..len { v.push(if k > 0 && k + 1 < len && r.below(7) == 0 { b'-' } else { b"ABCDEFGHIJKLMNOPQRSTUVWXYZ0123456789"[r.below(36) as usize] }); }
        v.resize(area, 0);
        v
    };
    hdr.extend(bcpl(r, 40));
    hdr.extend(bcpl(r, 20));
    let face = if r.below(2) == 0 { r.below(18) as u8 } else { r.below(256) as u8 };
    // SEVENBITSAFEFLAG: claimed for a third of the files (a file that claims it wrongly converts WITH a warning and is not judged)
    // (never in the 255-character files; in the `spread` files the font is then BUILT seven-bit safe, see below)
    let sbs: u8 = if !full && r.below(3) == 0 { 128 } else { 0 };
    let claim = sbs == 128 && lh >= 18;
    hdr.extend([sbs, 0, 0, face]);
    // extra header words: a third of them zero (trailing zero words must survive too)
    while hdr.len() < (lh as usize - 2) * 4 { hdr.extend((if r.below(3) == 0 { 0 } else { r.below(1 << 30) as u32 }).to_be_bytes()); }
    hdr.truncate((lh as usize - 2) * 4);
    b.extend(hdr);
    let existing: Vec<u16> = (0..nchars).filter(|k| present[*k as usize]).collect();
    let some_char = |r: &mut Rng| (bc + existing[r.below(existing.len() as u64) as usize]) as u8;
    // a font that CLAIMS seven-bit safety and has 8-bit characters is built safe: every lig/kern step looks at an 8-bit right
    // character (such a step can never fire on 7-bit input, whatever it inserts), next-larger links stay within 7 or 8 bits,
    // only 8-bit characters have recipes and recipes are made of 8-bit pieces
    let eight: Vec<u16> = existing.iter().copied().filter(|k| bc + k >= 128).collect();
    let safe_build = claim && spread && !eight.is_empty();
    let eight_char = |r: &mut Rng| (bc + eight[r.below(eight.len() as u64) as usize]) as u8;
    for k in 0..nchars {
        if !present[k as usize] { b.extend([0u8, 0, 0, 0]); continue; }
        let (w, h, d, i) = if full { ((k + 1) as u8, (k % 16) as u8, ((k / 16) % 16) as u8, (k % 64) as u8) }
            else { (1 + r.below(nw as u64 - 1) as u8, r.below(nh as u64) as u8, r.below(nd as u64) as u8, r.below(ni as u64) as u8) };
        let (tag, rem) = match r.below(5) {
            0 if nl > 0 => (1u8, r.below(nl as u64) as u8),
            1 if k + 1 < nchars && present[k as usize + 1] && (!safe_build || ((bc + k >= 128) == (bc + k + 1 >= 128))) => (2u8, (bc + k + 1) as u8),
            2 if ne > 0 && (!safe_build || bc + k >= 128) => (3u8, r.below(ne as u64) as u8),
            _ => (0u8, 0u8),
        };
        b.extend([w, (h << 4) | d, (i << 2) | tag, rem]);
    }
    for n in [nw, nh, nd, ni] { for k in 0..n {
        // (distinct values when the tables are full)
        let v: u32 = if k == 0 { 0 } else if full { (k as u32) * 4099 + n as u32 } else { r.below(1 << 21) as u32 + 1 };
        b.extend(v.to_be_bytes());
    } }
    for k in 0..nl {
        let skip: u8 = if k + 1 == nl || r.below(3) == 0 { 128 } else { 0 };
        let next = if safe_build { eight_char(r) } else { some_char(r) };
        let (op, rem) = if r.below(2) == 0 { (128u8, r.below(nk as u64) as u8) } else { ([0u8, 1, 2, 3, 5, 6, 7, 11][r.below(8) as usize], some_char(r)) };
        b.extend([skip, next, op, rem]);
    }
    for _ in 0..nk { b.extend((r.below(1 << 20) as u32).wrapping_sub(1 << 19).to_be_bytes()); }
    for _ in 0..ne { for j in 0..4 { b.push(if j < 3 && r.below(2) == 0 { 0 } else if safe_build { eight_char(r) } else { some_char(r) }); } }
    for _ in 0..np { b.extend((r.below(1 << 22) as u32).to_be_bytes()); }
    // a claim of seven-bit safety that the generator cannot vouch for is withdrawn (TFtoPL does not check the claim, PLtoTF does)
    if claim && spread && !safe_build { b[24 + 68] = 0; }
    b
}


/// what a .tfm says about its characters, independent of table layout: the VALUES of the four dimensions, the next-larger
/// link and the extensible recipe of every character, and the parameters (lig/kern behaviour is compared through the
/// property lists)
fn fingerprint(bytes: &[u8], reference: &[u8]) -> Option<String> { fingerprint_n(bytes, reference, usize::MAX) }
/// (`extra_words`: how many of the header words beyond the 18 named ones take part)
fn fingerprint_n(bytes: &[u8], reference: &[u8], extra_words: usize) -> Option<String> {
    let (f, _) = crate::File::deserialize(bytes);
    let mut f = f.ok()?;
    let _ = f.validate_and_fix();
    let rh = crate::File::deserialize(reference).0.ok()?.header;
    // the header: checksum, design size, extra words always; coding scheme, family, face where the file has them (a
    // shorter header gets PLtoTF's defaults in the canonical file)
    let mut out = format!("design {:?} params {:?} checksum {:?} extra {:?} scheme {:?} family {:?} face {:?}\n", f.header.design_size, f.params, f.header.checksum, f.header.additional_data.iter().take(extra_words).collect::<Vec<_>>(),
        rh.character_coding_scheme.as_ref().and(f.header.character_coding_scheme.as_ref()), rh.font_family.as_ref().and(f.header.font_family.as_ref()), rh.face.as_ref().and(f.header.face.as_ref()));
    // SEVENBITSAFEFLAG: PLtoTF writes the flag it COMPUTES, so FALSE may legitimately become TRUE for a font that is safe; what
    // must hold: a flag that was TRUE stays TRUE (no warning was raised), and a font that is visibly unsafe - a 7-bit character
    // linked to an 8-bit one by NEXTLARGER or by a piece of its extensible recipe - never gets TRUE
    let reference = crate::File::deserialize(reference).0.ok()?;
    let unsafe_by_links = reference.char_tags.iter().any(|(c, t)| c.0 < 128 && match t {
        crate::CharTag::List(n) => n.0 >= 128,
        crate::CharTag::Extension(e) => reference.extensible_chars.get(*e as usize).map_or(false, |r| r.rep.0 >= 128 || [r.top, r.middle, r.bottom].iter().any(|p| p.map_or(false, |p| p.0 >= 128))),
        _ => false,
    });
    if rh.seven_bit_safe == Some(true) { out.push_str(&format!("seven bit safe flag (claimed by the original) {:?}\n", f.header.seven_bit_safe)); }
    if unsafe_by_links { out.push_str(&format!("a font with a 7-bit character linked to an 8-bit one says it is seven-bit safe: {}\n", f.header.seven_bit_safe == Some(true))); }
    for (c, d) in &f.char_dimens {
        let v = |t: &Vec<crate::FixWord>, i: usize| t.get(i).map(|x| x.0);
        out.push_str(&format!("{:?}: w {:?} h {:?} d {:?} i {:?}", c, v(&f.widths, d.width_index.get() as usize), v(&f.heights, d.height_index as usize), v(&f.depths, d.depth_index as usize), v(&f.italic_corrections, d.italic_index as usize)));
        match f.char_tags.get(c) {
            Some(crate::CharTag::List(n)) => out.push_str(&format!(" next {:?}", n)),
            Some(crate::CharTag::Extension(e)) => out.push_str(&format!(" ext {:?}", f.extensible_chars.get(*e as usize).map(|r| (r.top, r.middle, r.bottom, r.rep)))),
            _ => {}
        }
        out.push('\n');
    }
    Some(out)
}

/// the header strings and face byte of a generated file, read off the BYTES by this driver (not by the code under test):
/// words 2..11 CODINGSCHEME, 12..16 FAMILY as BCPL strings (length byte first), byte 3 of word 17 the face
fn raw_header(b: &[u8]) -> (Option<String>, Option<String>, Option<u8>) {
    let lh = u16::from_be_bytes([b[2], b[3]]) as usize;
    let h = &b[24..];
    let bcpl = |off: usize, area: usize| -> Option<String> { let n = h[off] as usize; if n < area { Some(h[off + 1..off + 1 + n].iter().map(|c| *c as char).collect()) } else { None } };
    (if lh >= 12 { bcpl(8, 40) } else { None }, if lh >= 17 { bcpl(48, 20) } else { None }, if lh >= 18 { Some(h[71]) } else { None })
}
/// the same three fields as the TFM reader reports them
fn read_header(bytes: &[u8]) -> Option<(Option<String>, Option<String>, Option<u8>)> {
    let f = crate::File::deserialize(bytes).0.ok()?;
    Some((f.header.character_coding_scheme.clone(), f.header.font_family.clone(), f.header.face.map(|x| x.into())))
}
fn hex(b: &[u8]) -> String { b.iter().map(|x| format!("{x:02x}")).collect() }

#[test]
fn whole_files() {
    std::panic::set_hook(Box::new(|info| { println!("PANICLOC {}", info.to_string().replace('\n', " ").chars().take(300).collect::<String>()); }));
    let thorough = std::env::var("VERIF_TIER").map(|t| t == "thorough").unwrap_or(false);
    let n_files = if thorough { 60_000 } else { 8_000 };
    let mut r = Rng(0x9E3779B97F4A7C15);
    let (mut clean, mut with_warnings, mut rejected, mut texts) = (0u64, 0u64, 0u64, 0u64);
    let mut failures = 0;
    let mut long_header_reported = false;
    let fmt = |_: &crate::pl::File| crate::pl::CharDisplayFormat::Default;
    for _ in 0..n_files {
        let is_clean_gen = r.below(2) == 0;
        let b = if is_clean_gen { gen_clean_tfm(&mut r) } else { gen_tfm(&mut r) };
        let b2 = b.clone();
        let out = std::panic::catch_unwind(move || tfm_to_pl(&b2, 3, &fmt).map(|o| (o.pl_data.ok(), o.error_messages.len())));
        let (pl, n_msgs) = match out {
            Err(_) => {
                println!("WITNESS {{\"fn\": \"tfm_to_pl\", \"unit_fns\": [\"deserialize\", \"validate_and_fix\", \"from\", \"display\"], \"tfm_bytes_hex\": \"{}\", \"observed\": \"panic\", \"expected\": \"a property list or a documented error (C10)\"}}", hex(&b));
                failures += 1; if failures >= 5 { return; } continue;
            }
            Ok(Err(_)) => continue,
            Ok(Ok((None, _))) => { rejected += 1; continue; }
            Ok(Ok((Some(pl), n))) => (pl, n),
        };
        // C10, text side: the printed list and two mutilations of it never panic the PL reader
        let mut variants = vec![pl.clone()];
        if !pl.is_empty() {
            let cut = r.below(pl.len() as u64) as usize;
            if pl.is_char_boundary(cut) { variants.push(pl[..cut].to_string()); }
            let pos = r.below(pl.len() as u64) as usize;
            if pl.is_char_boundary(pos) && pl.is_char_boundary(pos + 1) {
                let repl = ["(", ")", "R", "9", " ", "-", "C", "é"][r.below(8) as usize];
                variants.push(format!("{}{}{}", &pl[..pos], repl, &pl[pos + 1..]));
            }
        }
        // numbers beyond every limit in place of a number of the list (reals, decimal / octal / hex integers, characters)
        if !pl.is_empty() {
            let hits: Vec<(usize, &str)> = [" R ", " D ", " O ", " H ", " C "].iter().flat_map(|pat| pl.match_indices(pat).map(|(i, m)| (i, m)).collect::<Vec<_>>()).collect();
            if !hits.is_empty() {
                let (i, m) = hits[r.below(hits.len() as u64) as usize];
                let end = pl[i + m.len()..].find(|c: char| c == ')' || c == ' ' || c == '\n').map(|e| i + m.len() + e).unwrap_or(pl.len());
                let big = ["R 3000000000.5", "R -99999999999999999999.99999999999999999999", "R 2047.9999999", "R 2048", "R .", "R -", "D 99999999999", "D 256", "O 777777777777", "O 8", "H FFFFFFFFF", "H G", "C é", "C", "R 1e5", "D -1", "C \u{100}", "C \u{80}", "C \u{1F600}", "F XXX"][r.below(20) as usize];
                variants.push(format!("{} {}{}", &pl[..i], big, &pl[end..]));
            }
        }
        // a property appended to the list: labels without instructions, skips past the end, characters beyond Latin-1,
        // header / parameter numbers at and beyond their limits
        if !pl.is_empty() {
            let extra = ["(LIGTABLE (LABEL BOUNDARYCHAR))", "(LIGTABLE (LABEL BOUNDARYCHAR) (STOP))", "(LIGTABLE (LABEL C A) (SKIP D 3))", "(LIGTABLE (LABEL C A) (LIG C A C A) (SKIP D 200))",
                "(CHARACTER C \u{100} (CHARWD R 1.0))", "(HEADER D 300 O 1)", "(HEADER D 18 O 1)", "(HEADER D 17 O 1)", "(PARAMETER D 255 R 1.0)", "(PARAMETER D 0 R 1.0)", "(CHARACTER C A (NEXTLARGER C A))",
                "(LIGTABLE (LABEL C A) (LABEL C B) (KRN C A R 1.0) (STOP) (LABEL C C))", "(BOUNDARYCHAR C A)(LIGTABLE (LABEL BOUNDARYCHAR) (LIG C A C A))", "(FACE F BIE)", "(FACE O 377)", "(FACE D 256)",
                "(CODINGSCHEME 0123456789012345678901234567890123456789)", "(FAMILY 01234567890123456789)", "(SEVENBITSAFEFLAG TRUE)(CHARACTER O 200)"][r.below(19) as usize];
            variants.push(format!("{pl}{extra}\n"));
        }
        for v in variants {
            texts += 1;
            let v2 = v.clone();
            // (C10, last clause: whatever PL -> TFM returns is accepted by the TFM reader)
            let res = std::panic::catch_unwind(move || { let (bytes, _) = pl_to_tfm(&v2); crate::File::deserialize(&bytes).0.is_ok() });
            if let Ok(false) = res {
                println!("WITNESS {{\"fn\": \"pl_to_tfm\", \"unit_fns\": [\"from_pl_source_code\", \"from\", \"serialize\", \"deserialize\"], \"pl_text\": \"{}\", \"observed\": \"the .tfm written for this text is rejected by the TFM reader\", \"expected\": \"a readable .tfm (C10)\"}}", v.escape_default().to_string().replace('"', "'").replace('\\', "/"));
                failures += 1; if failures >= 5 { return; }
            }
            if res.is_err() {
                println!("WITNESS {{\"fn\": \"pl_to_tfm\", \"unit_fns\": [\"from_pl_source_code\", \"from\", \"serialize\"], \"pl_text\": \"{}\", \"observed\": \"panic\", \"expected\": \"a .tfm file and warnings (C10)\"}}", v.escape_default().to_string().replace('"', "'").replace('\\', "/"));
                failures += 1; if failures >= 5 { return; }
            }
        }
        if n_msgs > 0 { with_warnings += 1; continue; }
        clean += 1;
        // C11: canonical file and fixed point
        let pl0 = pl.clone();
        let res = std::panic::catch_unwind(move || {
            let (t1, w1) = pl_to_tfm(&pl0);
            let o2 = tfm_to_pl(&t1, 3, &fmt).unwrap();
            let n2 = o2.error_messages.len();
            let pl2 = o2.pl_data.ok();
            let (t2, w2) = match &pl2 { Some(p) => { let (t, w) = pl_to_tfm(p); (Some(t), w.len()) } None => (None, 0) };
            (t1, w1.len(), pl2, n2, t2, w2)
        });
        match res {
            Err(_) => {
                println!("WITNESS {{\"fn\": \"round_trip_panic\", \"unit_fns\": [\"from\", \"serialize\", \"deserialize\", \"pack_entrypoints\"], \"tfm_bytes_hex\": \"{}\", \"observed\": \"panic while converting the warning-free file back and forth\", \"expected\": \"no panic\"}}", hex(&b));
                failures += 1;
            }
            Ok((t1, w1, pl2, n2, t2, w2)) => {
                let problem = if w1 > 0 { Some("the PL printed from a warning-free .tfm is read back WITH warnings".to_string()) }
                    else if pl2.is_none() { Some("the canonical .tfm is rejected by the reader".to_string()) }
                    else if n2 > 0 { Some(format!("the canonical .tfm raises {n2} warning(s)")) }
                    else if w2 > 0 { Some("second PL read raises warnings".to_string()) }
                    else if t2.as_ref() != Some(&t1) { Some("a further PL round trip changes the canonical .tfm".to_string()) }
                    else if is_clean_gen && read_header(&b) != Some(raw_header(&b)) { Some(format!("the TFM reader reports the header {:?} for a file whose bytes hold {:?}", read_header(&b), raw_header(&b)).replace('"', "'")) }
                    else if is_clean_gen && { let (rs, rf, rface) = raw_header(&b); let got = read_header(&t1); got.as_ref().map_or(true, |g| (rs.is_some() && g.0 != rs) || (rf.is_some() && g.1 != rf) || (rface.is_some() && g.2 != rface)) } { Some(format!("the canonical .tfm has the header {:?}, the original's bytes hold {:?}", read_header(&t1), raw_header(&b)).replace('"', "'")) }
                    else if fingerprint(&b, &b) != fingerprint(&t1, &b) { Some({ let (fa, fb) = (fingerprint(&b, &b).unwrap_or_default(), fingerprint(&t1, &b).unwrap_or_default());
                        let d = fa.lines().zip(fb.lines()).find(|(x, y)| x != y).map(|(x, y)| format!("`{x}` became `{y}`")).unwrap_or_else(|| format!("{} lines became {}", fa.lines().count(), fb.lines().count()));
                        format!("the canonical .tfm has a different header or gives some character different dimensions, links, recipes or parameters: {d}") }.replace('"', "'").replace('\\', "/").chars().take(700).collect()) }
                    else if pl2.as_ref().map(|p| font_description(p)) != Some(font_description(&pl)) { Some("the canonical .tfm describes a different font (its property list differs from the original's beyond the header defaults PLtoTF always writes)".to_string()) }
                    else { None };
                if let Some(pb) = problem {
                    // a failure whose ONLY content is that header words beyond index 255 are missing from the canonical file is
                    // labelled with its class (one report; see known_findings.json) - any other difference is reported as usual
                    let only_long_header = t2.as_ref() == Some(&t1) && w1 == 0 && n2 == 0 && w2 == 0 && pl2.is_some()
                        && fingerprint(&b, &b) != fingerprint(&t1, &b) && fingerprint_n(&b, &b, 238) == fingerprint_n(&t1, &b, 238);
                    if only_long_header {
                        if !long_header_reported {
                            long_header_reported = true;
                            println!("WITNESS {{\"fn\": \"round_trip\", \"class\": \"header words beyond index 255 dropped without a warning\", \"unit_fns\": [\"lower\"], \"tfm_bytes_hex\": \"{}\", \"observed\": \"lh = {} > 256: the canonical .tfm lacks the header words with index above 255, and no warning was raised\", \"expected\": \"same header, or a warning (C11)\"}}", hex(&b[..b.len().min(64)]), u16::from_be_bytes([b[2], b[3]]));
                        }
                    } else {
                        println!("WITNESS {{\"fn\": \"round_trip\", \"unit_fns\": [\"from\", \"serialize\", \"deserialize\", \"pack_entrypoints\", \"compress\"], \"tfm_bytes_hex\": \"{}\", \"observed\": \"{pb}\", \"expected\": \"canonical fixed point without warnings (C11)\"}}", hex(&b));
                        failures += 1;
                    }
                }
            }
        }
        if failures >= 5 { return; }
    }
    println!("STATS {{\"driver\": \"tfm_files\", \"files\": {n_files}, \"warning_free\": {clean}, \"with_warnings\": {with_warnings}, \"rejected\": {rejected}, \"pl_texts_read\": {texts}}}");
}

// ---------------------------------------------------------------- C11: lig/kern programs with more than 255 instructions
/// label -> the instruction it points at, read off a LIGTABLE in TFtoPL's layout (LABEL lines precede their instruction)
fn label_targets(pl: &str) -> std::collections::BTreeMap<String, String> {
    let mut out = std::collections::BTreeMap::new();
    let mut pending: Vec<String> = vec![];
    let mut in_table = false;
    let mut comment_depth = 0i32;
    for l in pl.lines() {
        let t = l.trim();
        if t == "(LIGTABLE" { in_table = true; continue; }
        if !in_table { continue; }
        if comment_depth > 0 { if t == ")" { comment_depth -= 1; } else if t.starts_with("(COMMENT") && !t.ends_with(')') { comment_depth += 1; } continue; }
        if t.starts_with("(COMMENT") { if !t.ends_with(')') { comment_depth += 1; } continue; }
        if t == ")" { break; }
        if let Some(rest) = t.strip_prefix("(LABEL ") { pending.push(rest.trim_end_matches(')').to_string()); continue; }
        if t.starts_with("(LIG") || t.starts_with("(/LIG") || t.starts_with("(KRN") { for p in pending.drain(..) { out.insert(p, t.to_string()); } }
    }
    out
}

#[test]
fn large_lig_kern_programs() {
    std::panic::set_hook(Box::new(|info| { println!("PANICLOC {}", info.to_string().replace('\n', " ").chars().take(300).collect::<String>()); }));
    let chars: Vec<char> = ('A'..='Z').chain('a'..='z').chain('0'..='9').collect();
    let fmt = |_: &crate::pl::File| crate::pl::CharDisplayFormat::Default;
    let mut r = Rng(0xD1B54A32D192ED03);
    let mut n_files = 0u64;
    for total in [200usize, 254, 255, 256, 257, 258, 260, 300, 511, 520] { for boundary in [false, true] { for variant in 0..6usize {
        // label positions: always the last instructions and the neighbourhood of 255 / 256, plus random ones
        let mut positions: Vec<usize> = vec![0, total - 1];
        for p in [253usize, 254, 255, 256, 257] { if p < total && (variant + p) % 2 == 0 { positions.push(p); } }
        for _ in 0..(variant * 3) { positions.push(r.below(total as u64) as usize); }
        positions.sort(); positions.dedup();
        positions.truncate(chars.len() - 2);
        let mut pl = String::from("(DESIGNSIZE R 10.0)\n");
        if boundary { pl.push_str("(BOUNDARYCHAR C z)\n"); }
        pl.push_str("(LIGTABLE\n");
        let mut lab = 0usize;
        for i in 0..total {
            if positions.contains(&i) { pl.push_str(&format!("   (LABEL C {})\n", chars[lab])); lab += 1; }
            // every instruction is distinguishable: a ligature of a unique pair
            let (x, y) = (chars[i % chars.len()], chars[(i / chars.len() + 7 * (i % chars.len())) % chars.len()]);
            pl.push_str(&format!("   (LIG C {x} C {y})\n"));
            // every chain runs from its label to the next one, so that every instruction is reachable
            if positions.contains(&(i + 1)) || i + 1 == total { pl.push_str("   (STOP)\n"); }
        }
        pl.push_str("   )\n");
        for c in &chars { pl.push_str(&format!("(CHARACTER C {c}\n   (CHARWD R 0.5)\n   )\n")); }
        n_files += 1;
        let pl0 = pl.clone();
        let res = std::panic::catch_unwind(move || {
            let (t1, w1) = pl_to_tfm(&pl0);
            let o1 = tfm_to_pl(&t1, 3, &fmt).unwrap();
            let n1 = o1.error_messages.len();
            let p1 = o1.pl_data.ok();
            let t2 = p1.as_ref().map(|p| pl_to_tfm(p).0);
            // the canonical file is t2: one more round trip must be the identity
            let t3 = t2.as_ref().and_then(|t| tfm_to_pl(t, 3, &fmt).unwrap().pl_data.ok()).map(|p| pl_to_tfm(&p).0);
            (t1, w1.len(), p1, n1, t2, t3)
        });
        let fail = |obs: String| {
            let fname = if obs == "panic" { "pack_entrypoints_panic" } else { "pack_entrypoints" };
            println!("WITNESS {{\"fn\": \"{fname}\", \"unit_fns\": [\"pack_entrypoints\", \"unpack_entrypoint\", \"from\", \"serialize\", \"deserialize\"], \"program\": \"{total} instructions, boundary char: {boundary}, labels at {:?}\", \"observed\": \"{}\", \"expected\": \"every label keeps pointing at its instruction through PL -> TFM -> PL; no warnings; fixed point (C11)\"}}", positions, obs.replace('"', "'"));
        };
        match res {
            Err(_) => { fail("panic".into()); return; }
            Ok((_t1, w1, p1, n1, t2, t3)) => {
                let Some(p1) = p1 else { fail("the .tfm written from the property list is rejected".into()); return; };
                if w1 > 0 || n1 > 0 { fail(format!("{w1} warning(s) reading the list, {n1} message(s) reading the .tfm back")); return; }
                if t2.is_none() || t3 != t2 { fail("a further round trip changes the canonical .tfm".into()); return; }
                let (want, got) = (label_targets(&pl), label_targets(&p1));
                if want != got {
                    let diff: Vec<String> = want.iter().filter(|(k, v)| got.get(*k) != Some(*v)).map(|(k, v)| format!("{k}: {v} became {:?}", got.get(k))).take(3).collect();
                    fail(format!("labels moved: {}", diff.join("; "))); return;
                }
            }
        }
    } } }
    println!("STATS {{\"driver\": \"large lig/kern programs\", \"files\": {n_files}}}");
}

// ---------------------------------------------------------------- C10: a lig/kern table at and beyond PLtoTF's size limit
#[test]
fn huge_lig_table() {
    std::panic::set_hook(Box::new(|info| { println!("PANICLOC {}", info.to_string().replace('\n', " ").chars().take(300).collect::<String>()); }));
    let mut n_texts = 0;
    for n in [32508usize, 32509, 32510, 32511, 32512, 32513, 32600, 33000, 66000] {
        for label_at_end in [false, true] {
            let mut pl = String::from("(CHARACTER C A (CHARWD R 1.0))\n(LIGTABLE\n   (LABEL C A)\n");
            for _ in 0..n { pl.push_str("   (KRN C A R 0.5)\n"); }
            if label_at_end { pl.push_str("   (LABEL C B)\n   (KRN C A R 0.25)\n"); }
            pl.push_str("   (STOP)\n   )\n");
            n_texts += 1;
            let p2 = pl.clone();
            let res = std::panic::catch_unwind(move || { let (bytes, _) = pl_to_tfm(&p2); crate::File::deserialize(&bytes).0.is_ok() });
            match res {
                Err(_) => { println!("WITNESS {{\"fn\": \"pl_to_tfm\", \"unit_fns\": [\"from_ast\"], \"pl_text\": \"(CHARACTER C A (CHARWD R 1.0)) (LIGTABLE (LABEL C A) {n} x (KRN C A R 0.5){} (STOP))\", \"observed\": \"panic\", \"expected\": \"a .tfm file and warnings (C10)\"}}", if label_at_end { " (LABEL C B) (KRN C A R 0.25)" } else { "" }); return; }
                Ok(false) => { println!("WITNESS {{\"fn\": \"pl_to_tfm\", \"unit_fns\": [\"from_ast\", \"serialize\"], \"pl_text\": \"(LIGTABLE (LABEL C A) {n} x (KRN C A R 0.5) (STOP))\", \"observed\": \"the .tfm written for this text is rejected by the TFM reader\", \"expected\": \"a readable .tfm (C10)\"}}"); return; }
                Ok(true) => {}
            }
        }
    }
    // every one of the 256 characters with its own label beyond position 255: 256 (or 255) entry-point redirections
    for n_labels in [254usize, 255, 256] { for boundary in [false, true] { for lead in [0usize, 1, 255, 256, 300] {
        let mut pl = String::new();
        if boundary { pl.push_str("(BOUNDARYCHAR O 1)\n"); }
        for c in 0..n_labels { pl.push_str(&format!("(CHARACTER O {:o} (CHARWD R 1.0))\n", c)); }
        pl.push_str("(LIGTABLE\n");
        for _ in 0..lead { pl.push_str("   (KRN O 1 R 0.5)\n"); }
        if lead > 0 { pl.push_str("   (STOP)\n"); }
        for c in 0..n_labels { pl.push_str(&format!("   (LABEL O {:o})\n   (KRN O 2 R 0.25)\n   (STOP)\n", c)); }
        pl.push_str("   )\n");
        n_texts += 1;
        let p2 = pl.clone();
        // (and the file written is a fixed point of a further round trip in which every label keeps its instruction)
        let fmt = |_: &crate::pl::File| crate::pl::CharDisplayFormat::Default;
        let res = std::panic::catch_unwind(move || {
            let (bytes, _) = pl_to_tfm(&p2);
            if crate::File::deserialize(&bytes).0.is_err() { return false; }
            let o = tfm_to_pl(&bytes, 3, &fmt).unwrap();
            let Ok(p1) = o.pl_data else { return false; };
            // (the unlabelled leading instructions are unreachable and disappear: the canonical file is the SECOND one)
            let (t2, _) = pl_to_tfm(&p1);
            let Ok(p2) = tfm_to_pl(&t2, 3, &fmt).unwrap().pl_data else { return false; };
            let (t3, _) = pl_to_tfm(&p2);
            // (every character keeps a label, and the kern it leads to: TFtoPL repeats each program as a comment under its CHARACTER)
            t3 == t2 && p2.matches("(LABEL ").count() == n_labels && p2.matches("(KRN O 2 R 0.25)").count() == 2 * n_labels
        });
        let desc = format!("{}{n_labels} characters O 0.. each with (LABEL)(KRN O 2 R 0.25)(STOP) after {lead} unlabelled instructions", if boundary { "(BOUNDARYCHAR O 1) " } else { "" });
        match res {
            Err(_) => { println!("WITNESS {{\"fn\": \"pl_to_tfm\", \"unit_fns\": [\"pack_entrypoints\"], \"pl_text\": \"{desc}\", \"observed\": \"panic\", \"expected\": \"a .tfm file and warnings (C10)\"}}"); return; }
            Ok(false) => { println!("WITNESS {{\"fn\": \"pl_to_tfm\", \"unit_fns\": [\"pack_entrypoints\", \"serialize\"], \"pl_text\": \"{desc}\", \"observed\": \"the .tfm written for this text is rejected by the TFM reader, or is not a fixed point of a further round trip, or loses labels\", \"expected\": \"a readable canonical .tfm (C10, C11)\"}}"); return; }
            Ok(true) => {}
        }
    } } }
    println!("STATS {{\"driver\": \"huge lig/kern tables\", \"texts\": {n_texts}}}");
}

// ---------------------------------------------------------------- C10: dimensions at the ends of the fix_word range, tables beyond their limits
#[test]
fn extreme_pl_values() {
    std::panic::set_hook(Box::new(|info| { println!("PANICLOC {}", info.to_string().replace('\n', " ").chars().take(300).collect::<String>()); }));
    let ext = ["2047.0", "-2047.0", "2047.9999", "-2047.9", "2046.0", "1024.0", "-1024.5", "0.0000001", "-0.0000001", "1013.0", "-16.0", "-17.0"];
    let mut texts: Vec<String> = vec![];
    // one character (every code that matters for the checksum) with one extreme dimension
    for c in [0u32, 1, 127, 128, 254, 255] { for prop in ["CHARWD", "CHARHT", "CHARDP", "CHARIC"] { for v in ext {
        texts.push(format!("(CHARACTER D {c} ({prop} R {v}))"));
    } } }
    // more distinct values than a table may hold, spanning the whole range: compress must merge classes
    for (prop, limit) in [("CHARHT", 15usize), ("CHARDP", 15), ("CHARIC", 63), ("CHARWD", 255)] {
        for extremes in [&["2047.0", "-2047.0"][..], &["2046.0", "2047.0"][..], &["-2047.0", "-2046.5"][..], &["2047.9999", "-2047.9999", "0.0000001"][..]] {
            let mut pl = String::new();
            let n = (limit + 1 + extremes.len()).min(256);
            for k in 0..n {
                let v = if k < extremes.len() { extremes[k].to_string() } else { format!("{}.0", 100 * (k - extremes.len() + 1) % 2000) };
                pl.push_str(&format!("(CHARACTER D {k} (CHARWD R {}.5) ({prop} R {v}))\n", k % 7));
            }
            texts.push(pl);
        }
    }
    // parameters, kerns, design size and units at the extremes
    for v in ext {
        texts.push(format!("(FONTDIMEN (SLANT R {v}) (SPACE R {v}) (PARAMETER D 30 R {v}))"));
        texts.push(format!("(CHARACTER C A (CHARWD R 1.0))(LIGTABLE (LABEL C A) (KRN C A R {v}) (STOP))"));
        texts.push(format!("(DESIGNSIZE R {v})(DESIGNUNITS R {v})(CHARACTER C A (CHARWD R 1.0))"));
        texts.push(format!("(DESIGNUNITS R {v})(CHARACTER D 255 (CHARWD R 2047.0) (CHARHT R -2047.0))"));
    }
    let n_texts = texts.len();
    for pl in texts {
        let p2 = pl.clone();
        let res = std::panic::catch_unwind(move || { let (bytes, _) = pl_to_tfm(&p2); crate::File::deserialize(&bytes).0.is_ok() });
        let short: String = pl.chars().take(260).collect::<String>().replace('\n', " ");
        match res {
            Err(_) => { println!("WITNESS {{\"fn\": \"pl_to_tfm\", \"unit_fns\": [\"checksum\", \"compress\", \"from\"], \"pl_text\": \"{short}\", \"observed\": \"panic\", \"expected\": \"a .tfm file and warnings (C10)\"}}"); return; }
            Ok(false) => { println!("WITNESS {{\"fn\": \"pl_to_tfm\", \"unit_fns\": [\"from\", \"serialize\"], \"pl_text\": \"{short}\", \"observed\": \"the .tfm written for this text is rejected by the TFM reader\", \"expected\": \"a readable .tfm (C10)\"}}"); return; }
            Ok(true) => {}
        }
    }
    println!("STATS {{\"driver\": \"extreme property-list values\", \"texts\": {n_texts}}}");
}

// ---------------------------------------------------------------- C10: two inputs the code cannot handle yet (known_findings.json)
/// a font that does not fit the format: more than 32767 words (here 20000 instructions + 20000 distinct kerns)
#[test]
fn font_too_big_for_the_format() {
    std::panic::set_hook(Box::new(|info| { println!("PANICLOC {}", info.to_string().replace('\n', " ").chars().take(300).collect::<String>()); }));
    let mut pl = String::from("(CHARACTER C A (CHARWD R 1.0))\n(CHARACTER C B (CHARWD R 1.0))\n(LIGTABLE\n   (LABEL C A)\n");
    for k in 0..20000 { pl.push_str(&format!("   (KRN C B R {}.{:04})\n", k / 10000, k % 10000)); }
    pl.push_str("   (STOP)\n   )\n");
    let res = std::panic::catch_unwind(move || { let (bytes, _) = pl_to_tfm(&pl); crate::File::deserialize(&bytes).0.is_ok() });
    match res {
        Ok(true) => println!("STATS {{\"driver\": \"font too big\", \"texts\": 1}}"),
        Err(_) => println!("WITNESS {{\"fn\": \"pl_to_tfm\", \"class\": \"font of more than 32767 words\", \"unit_fns\": [\"serialize\", \"valid_lf\"], \"pl_text\": \"(CHARACTER C A ..)(CHARACTER C B ..)(LIGTABLE (LABEL C A) 20000 x (KRN C B R <distinct>) (STOP))\", \"observed\": \"panic\", \"expected\": \"a .tfm file and warnings, or a documented error (C10)\"}}"),
        Ok(false) => println!("WITNESS {{\"fn\": \"pl_to_tfm\", \"class\": \"font of more than 32767 words\", \"unit_fns\": [\"serialize\", \"valid_lf\"], \"pl_text\": \"(LIGTABLE (LABEL C A) 20000 x (KRN C B R <distinct>) (STOP))\", \"observed\": \"the .tfm written for this text is rejected by the TFM reader\", \"expected\": \"a readable .tfm (C10)\"}}"),
    }
}
/// 100000 nested opening parentheses: the nested list is built without recursion but dropped / lowered recursively, which
/// exhausts the stack - the process ABORTS, so the case runs in a child process (this test binary, one ignored test)
#[test]
#[ignore]
fn deep_nesting_child() { let pl = "(A ".repeat(100_000); let _ = pl_to_tfm(&pl); }
#[test]
fn deeply_nested_parentheses() {
    let exe = std::env::current_exe().unwrap();
    let out = std::process::Command::new(exe).args(["--exact", "verif_witness::deep_nesting_child", "--ignored", "--test-threads", "1"]).stdin(std::process::Stdio::null()).output();
    match out {
        Ok(o) if o.status.success() => println!("STATS {{\"driver\": \"deep nesting\", \"texts\": 1}}"),
        Ok(o) => println!("WITNESS {{\"fn\": \"pl_to_tfm\", \"class\": \"stack exhausted by deeply nested parentheses\", \"unit_fns\": [\"from_pl_source_code\"], \"pl_text\": \"100000 x `(A `\", \"observed\": \"the process died: {}\", \"expected\": \"a .tfm file and warnings (C10)\"}}", format!("{:?}", o.status).replace('"', "'")),
        Err(e) => println!("STATS {{\"driver\": \"deep nesting\", \"not_run\": \"{}\"}}", format!("{e}").replace('"', "'")),
    }
}
