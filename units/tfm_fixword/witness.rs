// Witness driver for unit tfm_fixword (property C17): executable mirrors of the contracts, against the real functions.
use crate::*;

/// TeX.2021.568, 571, 572 (store_scaled) over i128
fn store_scaled(fw: i32, ds: i32) -> i128 {
    let mut z: i128 = (ds as i128) / 16;
    let mut alpha: i128 = 16;
    while z >= 0o40000000 { z /= 2; alpha += alpha; }
    let beta = 256 / alpha;
    let alpha = alpha * z;
    let u = fw as u32;
    let (a, b, c, d) = ((u >> 24) as i128, ((u >> 16) & 255) as i128, ((u >> 8) & 255) as i128, (u & 255) as i128);
    let sw = (((d * z) / 0o400 + c * z) / 0o400 + b * z) / beta;
    if a == 0 { sw } else { sw - alpha }
}

#[test]
fn to_scaled() {
    std::panic::set_hook(Box::new(|_| {}));
    let mut fws: Vec<i32> = vec![];
    for b in [0i64, 1, 2, 255, 256, 257, 65535, 65536, 1 << 20, (1 << 20) + 1, 3 << 19, (1 << 24) - 1, 0x00ab_cdef, 0x0012_3456] {
        for s in [1i64, -1] { let x = s * b; if x >= -(1 << 24) && x < (1 << 24) { fws.push(x as i32); } }
    }
    fws.push(-(1 << 24));
    let mut dss: Vec<i32> = vec![];
    for b in [0i64, 1, 15, 16, 17, 1 << 20, 10 << 20, (10 << 20) + 5, (128 << 20) - 1, 128 << 20, (128 << 20) + 16, (128 << 20) + 0x10, 0x0800_0010, 0x0800_0030,
              (256 << 20) + 48, (512 << 20) + 0x70, (1024 << 20) + 0xf0, 0x7fff_ffff, 0x7fff_fff0, 0x4000_0000, 0x1234_5678] { dss.push(b as i32); }
    for &fw in &fws { for &ds in &dss {
        let want = store_scaled(fw, ds);
        let got = std::panic::catch_unwind(move || FixWord(fw).to_scaled(FixWord(ds))).ok();
        if got.map(|g| g.0 as i128) != Some(want) {
            println!("WITNESS {{\"fn\": \"to_scaled\", \"fix_word\": {fw}, \"design_size\": {ds}, \"observed\": \"{:?}\", \"expected\": \"{want} (TeX.2021.571 store_scaled)\"}}", got.map(|g| g.0)); return;
        }
    } }
}

/// compress: at most max_size classes, every value within ceil(delta/2) of its representative, delta minimal
fn classes_needed(sorted: &[i32], delta: i64) -> usize {
    // greedy partition (PLtoTF.2014.75): a class may span at most delta
    let mut n = 0; let mut i = 0;
    while i < sorted.len() { let start = sorted[i] as i64; n += 1; while i < sorted.len() && (sorted[i] as i64 - start) <= delta { i += 1; } }
    n
}

#[test]
fn compress_small() {
    std::panic::set_hook(Box::new(|_| {}));
    // every non-empty subset of {0,..,11} scaled by 1 and by 3, every class limit 1..=4
    for scale in [1i32, 3] { for mask in 1u32..(1 << 12) {
        let vals: Vec<i32> = (0..12).filter(|b| mask & (1 << b) != 0).map(|b| b * scale).collect();
        for max_size in 1u8..=4 {
            let input: Vec<FixWord> = vals.iter().map(|v| FixWord(*v)).collect();
            let res = std::panic::catch_unwind(move || compress(&input, max_size)).ok();
            let Some((table, index)) = res else { println!("WITNESS {{\"fn\": \"compress\", \"values\": {:?}, \"max_size\": {max_size}, \"observed\": \"panic\"}}", vals); return; };
            let mut why: Option<String> = None;
            if table.is_empty() || table[0] != FixWord::ZERO { why = Some("table[0] is not 0".into()); }
            if table.len() > max_size as usize + 1 { why = Some(format!("{} classes, limit {}", table.len() - 1, max_size)); }
            // minimal tolerance by brute force
            let mut best = 0i64; while classes_needed(&vals, best) > max_size as usize { best += 1; }
            for v in &vals {
                match index.get(&FixWord(*v)) {
                    None => { why = Some(format!("value {v} has no class")); }
                    Some(i) => {
                        let i = i.get() as usize;
                        if i >= table.len() { why = Some(format!("index {i} out of table")); }
                        else { let rep = table[i].0 as i64; if ((*v as i64) - rep).abs() > (best + 1) / 2 { why = Some(format!("value {v} is {} from its representative {rep}; minimal tolerance is {best}", ((*v as i64) - rep).abs())); } }
                    }
                }
            }
            if let Some(w) = why { println!("WITNESS {{\"fn\": \"compress\", \"values\": {:?}, \"max_size\": {max_size}, \"observed\": \"{w}\", \"expected\": \"<= max_size classes using the smallest tolerance, each value within half of it of its representative (PLtoTF.2014.75-80)\"}}", vals); return; }
        }
    } }
}

/// the same on pseudo-random multisets: duplicates, negative values, zero, equal gaps, values at the ends of the fix_word range,
/// up to 24 values and 1..=8 classes; the minimal tolerance is found by trying every pairwise difference
#[test]
fn compress_random() {
    std::panic::set_hook(Box::new(|_| {}));
    let thorough = std::env::var("VERIF_TIER").map(|t| t == "thorough").unwrap_or(false);
    let mut state: u64 = 0x9E3779B97F4A7C15;
    let mut next = move || { state ^= state << 13; state ^= state >> 7; state ^= state << 17; state };
    let mut cases = 0u64;
    for _ in 0..(if thorough { 200_000 } else { 25_000 }) {
        let n = 1 + (next() % 24) as usize;
        let scale: i64 = [1, 1, 2, 7, 1 << 10, 1 << 20, (1 << 26) + 3][(next() % 7) as usize];
        let spread = 1 + (next() % 40) as i64;
        let mut vals: Vec<i32> = (0..n).map(|_| { let v = ((next() % (2 * spread as u64 + 1)) as i64 - spread) * scale; v.clamp(i32::MIN as i64 + 1, i32::MAX as i64) as i32 }).collect();
        if next() % 5 == 0 { vals.push(i32::MAX); } if next() % 5 == 0 { vals.push(i32::MIN + 1); } if next() % 3 == 0 { vals.push(0); }
        let max_size = 1 + (next() % 8) as u8;
        let mut sorted = vals.clone(); sorted.sort(); sorted.dedup();
        let input: Vec<FixWord> = vals.iter().map(|v| FixWord(*v)).collect();
        let res = std::panic::catch_unwind(move || compress(&input, max_size)).ok();
        cases += 1;
        let Some((table, index)) = res else { println!("WITNESS {{\"fn\": \"compress\", \"values\": {:?}, \"max_size\": {max_size}, \"observed\": \"panic\"}}", vals); return; };
        let mut why: Option<String> = None;
        if table.is_empty() || table[0] != FixWord::ZERO { why = Some("table[0] is not 0".into()); }
        if table.len() > max_size as usize + 1 { why = Some(format!("{} classes, limit {}", table.len() - 1, max_size)); }
        // minimal tolerance: 0 or one of the pairwise differences (the number of classes only changes there)
        let mut cands: Vec<i64> = vec![0];
        for i in 0..sorted.len() { for j in i + 1..sorted.len() { cands.push(sorted[j] as i64 - sorted[i] as i64); } }
        cands.sort(); cands.dedup();
        let best = *cands.iter().find(|d| classes_needed(&sorted, **d) <= max_size as usize).unwrap();
        for v in &sorted {
            match index.get(&FixWord(*v)) {
                None => { why = Some(format!("value {v} has no class")); }
                Some(i) => {
                    let i = i.get() as usize;
                    if i >= table.len() { why = Some(format!("index {i} out of table")); }
                    else { let rep = table[i].0 as i64; if ((*v as i64) - rep).abs() > (best + 1) / 2 { why = Some(format!("value {v} is {} from its representative {rep}; minimal tolerance is {best}", ((*v as i64) - rep).abs())); } }
                }
            }
        }
        if let Some(w) = why { println!("WITNESS {{\"fn\": \"compress\", \"values\": {:?}, \"max_size\": {max_size}, \"observed\": \"{w}\", \"expected\": \"<= max_size classes using the smallest tolerance, each value within half of it of its representative (PLtoTF.2014.75-80)\"}}", vals); return; }
    }
    println!("STATS {{\"fn\": \"compress (random multisets)\", \"cases\": {cases}}}");
}

/// fix_word -> decimal -> fix_word through the real PL reader
#[test]
fn fixword_print_parse() {
    std::panic::set_hook(Box::new(|_| {}));
    // The printed digits of the fraction depend only on |x| mod 2^20 and the integer part is printed and read as an
    // integer, so the 2^32 patterns decompose: EVERY fraction (thorough; every 7th in the quick tier) with three integer
    // parts and both signs, and every integer part 0..=2047 with four fractions and both signs.
    let thorough = std::env::var("VERIF_TIER").map(|t| t == "thorough").unwrap_or(false);
    let mut xs: Vec<i32> = vec![];
    for f in (0..(1i64 << 20)).step_by(if thorough { 1 } else { 7 }) { for ip in [0i64, 7, 2047] { let v = (ip << 20) + f; xs.push(v as i32); xs.push((-v) as i32); } }
    for ip in 0..=2047i64 { for f in [0i64, 1, 1 << 19, (1 << 20) - 1] { let v = (ip << 20) + f; xs.push(v as i32); xs.push((-v) as i32); } }
    xs.push(i32::MIN);
    for x in xs {
        let printed = format!("{}", FixWord(x));
        let src = format!("(FONTDIMEN (SLANT R {}))", printed);
        let got = std::panic::catch_unwind(move || pl::File::from_pl_source_code(&src)).ok();
        let back = got.as_ref().and_then(|(f, _)| f.params.first().copied());
        if back != Some(FixWord(x)) {
            println!("WITNESS {{\"fn\": \"fmt\", \"unit_fns\": [\"fmt\", \"parse\"], \"fix_word\": {x}, \"printed\": \"{printed}\", \"observed\": \"{:?}\", \"expected\": \"reads back as {x} (TFtoPL.2014.40-43 / PLtoTF.2014.64-66)\"}}", back.map(|b| b.0)); return;
        }
    }
}

/// hand-written forms of a real number (PLtoTF.2014.62-66): signs toggle, the integer part or the fraction may be missing
#[test]
fn fixword_parse_forms() {
    std::panic::set_hook(Box::new(|_| {}));
    let one = 1i64 << 20;
    for (text, want) in [("1.5", one * 3 / 2), ("--1.5", one * 3 / 2), ("- -1.5", one * 3 / 2), ("-+-0.25", one / 4), ("+1.5", one * 3 / 2), ("-1.5", -one * 3 / 2), ("---1.5", -one * 3 / 2),
                         ("-0.0", 0), (".5", one / 2), ("5", 5 * one), ("5.", 5 * one), ("-.5", -one / 2), ("+-+-2047.5", 2047 * one + one / 2), ("- 3", -3 * one), ("0.0000005", 1), ("0.9999999", one), ("0.9999995", one - 1)] {
        let src = format!("(FONTDIMEN (SLANT R {text}))");
        let got = std::panic::catch_unwind(move || pl::File::from_pl_source_code(&src)).ok();
        let back = got.as_ref().and_then(|(f, _)| f.params.first().copied()).map(|b| b.0 as i64);
        if back != Some(want) {
            println!("WITNESS {{\"fn\": \"parse\", \"unit_fns\": [\"parse\"], \"text\": \"R {text}\", \"observed\": \"{:?}\", \"expected\": \"{want} (PLtoTF.2014.62-66)\"}}", back); return;
        }
    }
}

/// next-larger chains on every functional graph over 4 characters
#[test]
fn next_larger_graphs() {
    std::panic::set_hook(Box::new(|_| {}));
    let n = 4usize;
    let mut code = 0usize;
    let total = (n + 1).pow(n as u32);
    while code < total {
        let mut f: Vec<Option<usize>> = vec![]; let mut c = code;
        for _ in 0..n { let d = c % (n + 1); c /= n + 1; f.push(if d == n { None } else { Some(d) }); }
        code += 1;
        // model: in every cycle the link out of the LARGEST character is cut; chains then follow the links
        let mut cut = f.clone();
        for start in 0..n {
            // find whether start is on a cycle
            let mut seen = vec![]; let mut cur = Some(start);
            while let Some(x) = cur { if seen.contains(&x) { break; } seen.push(x); cur = f[x]; }
            if let Some(x) = cur { let pos = seen.iter().position(|y| *y == x).unwrap(); let cyc = &seen[pos..]; if cyc.contains(&start) { let m = *cyc.iter().max().unwrap(); cut[m] = None; } }
        }
        let edges: Vec<(Char, Char)> = (0..n).filter_map(|i| f[i].map(|j| (Char(b'A' + i as u8), Char(b'A' + j as u8)))).collect();
        let prog = std::panic::catch_unwind(move || NextLargerProgram::new(edges.into_iter(), |_| true, true)).ok();
        let Some((prog, _)) = prog else { println!("WITNESS {{\"fn\": \"new\", \"links\": \"{:?}\", \"observed\": \"panic\"}}", f); return; };
        for s in 0..n {
            let got: Vec<usize> = prog.get(Char(b'A' + s as u8)).take(10).map(|c| (c.0 - b'A') as usize).collect();
            let mut want = vec![]; let mut cur = cut[s]; while let Some(x) = cur { want.push(x); cur = cut[x]; if want.len() > 8 { break; } }
            if got != want { println!("WITNESS {{\"fn\": \"new\", \"unit_fns\": [\"new\", \"get\"], \"links\": \"{:?}\", \"from\": {s}, \"observed\": \"{:?}\", \"expected\": \"{:?} (finite chain following the links, cycles cut at their largest character, TFtoPL.2014.84)\"}}", f, got, want); return; }
        }
    }
}

/// PL -> TFM: the dimension tables respect the TFM limits (index 0 is the reserved zero entry, so 255 / 15 / 15 / 63
/// non-zero classes) and every character's indices point inside them - for fonts with exactly / just above the limit
#[test]
fn pl_table_limits() {
    std::panic::set_hook(Box::new(|_| {}));
    for k in [14usize, 15, 16, 17, 40, 63, 64, 65] {
        let mut src = String::new();
        for i in 0..k {
            src.push_str(&format!("(CHARACTER D {} (CHARWD R 1.0) (CHARHT R {:.4}) (CHARDP R {:.4}) (CHARIC R {:.4}))\n",
                i + 1, 0.01 * (i + 1) as f64, 0.02 * (i + 1) as f64, 0.005 * (i + 1) as f64));
        }
        let s2 = src.clone();
        let got = std::panic::catch_unwind(move || { let (plf, _) = pl::File::from_pl_source_code(&s2); File::from(plf) }).ok();
        let Some(f) = got else { println!("WITNESS {{\"fn\": \"from\", \"characters\": {k}, \"observed\": \"panic\"}}"); return; };
        let mut why: Option<String> = None;
        if f.widths.len() > 256 { why = Some(format!("{} width entries", f.widths.len())); }
        if f.heights.len() > 16 { why = Some(format!("{} height entries (limit 16 incl. the zero entry)", f.heights.len())); }
        if f.depths.len() > 16 { why = Some(format!("{} depth entries (limit 16 incl. the zero entry)", f.depths.len())); }
        if f.italic_corrections.len() > 64 { why = Some(format!("{} italic entries (limit 64 incl. the zero entry)", f.italic_corrections.len())); }
        for (c, d) in &f.char_dimens {
            if d.height_index as usize >= f.heights.len() || d.height_index > 15 { why = Some(format!("character {} has height index {}", c.0, d.height_index)); }
            if d.depth_index as usize >= f.depths.len() || d.depth_index > 15 { why = Some(format!("character {} has depth index {}", c.0, d.depth_index)); }
            if d.italic_index as usize >= f.italic_corrections.len() || d.italic_index > 63 { why = Some(format!("character {} has italic index {}", c.0, d.italic_index)); }
        }
        if f.char_dimens.len() != k { why = Some(format!("{} of {k} characters survived", f.char_dimens.len())); }
        if let Some(w) = why { println!("WITNESS {{\"fn\": \"from\", \"unit_fns\": [\"from\", \"compress\"], \"characters_with_distinct_dimensions\": {k}, \"observed\": \"{w}\", \"expected\": \"at most 255/15/15/63 non-zero classes, all indices inside the tables (PLtoTF.2014.75-80)\"}}"); return; }
    }
}
