// Bounded stand-in for macro parameter binding (property C02): \def with a prefix, one or two parameters (undelimited,
// delimited by one or two tokens, trailing #{) and replacement texts over literals and #n, called with every tuple of
// argument shapes; the REAL VM's expansion is compared with the expansion computed by an executable transcription of
// TeX.2021.389-399 (macro_call) on token strings.
use std::collections::HashMap;
use crate::def;
use texlang::command;
use texlang_testing::{State, TestOption};

fn built_ins() -> HashMap<&'static str, command::BuiltIn<State>> { HashMap::from([("def", def::get_def())]) }

/// brace depth bookkeeping on a char string (each char is one token; '{' '}' are the group characters)
fn is_single_group(s: &[char]) -> bool {
    if s.len() < 2 || s[0] != '{' || s[s.len() - 1] != '}' { return false; }
    let mut d = 0i32;
    for (i, c) in s.iter().enumerate() {
        if *c == '{' { d += 1; } else if *c == '}' { d -= 1; }
        if d == 0 && i + 1 < s.len() { return false; }   // the opening brace is closed before the end
    }
    d == 0
}

#[derive(Clone, Debug)]
enum Param { Undelimited, Delimited(Vec<char>) }

/// TeX's argument scan on `input` starting at `pos`: returns (argument tokens as bound to #n, new position)
fn bind(p: &Param, input: &[char], mut pos: usize) -> Option<(Vec<char>, usize)> {
    match p {
        Param::Undelimited => {
            while pos < input.len() && input[pos] == ' ' { pos += 1; }
            if pos >= input.len() { return None; }
            if input[pos] != '{' { return Some((vec![input[pos]], pos + 1)); }
            let mut d = 0i32; let start = pos;
            loop {
                if pos >= input.len() { return None; }
                if input[pos] == '{' { d += 1; } else if input[pos] == '}' { d -= 1; }
                pos += 1;
                if d == 0 { break; }
            }
            Some((input[start + 1..pos - 1].to_vec(), pos))
        }
        Param::Delimited(delim) => {
            // shortest brace-balanced run before the delimiter: the delimiter must occur at depth 0
            // (for the #{ form the delimiter's final '{' is itself a brace: depth 1 after reading it)
            let start = pos; let mut d = 0i32; let m = delim.len();
            let closing = if *delim.last().unwrap() == '{' { 1 } else { 0 };
            loop {
                if pos >= input.len() { return None; }
                if input[pos] == '{' { d += 1; } else if input[pos] == '}' { d -= 1; }
                pos += 1;
                if d == closing && pos - start >= m && input[pos - m..pos] == delim[..] {
                    let arg = &input[start..pos - m];
                    let arg = if is_single_group(arg) { arg[1..arg.len() - 1].to_vec() } else { arg.to_vec() };
                    return Some((arg, pos));
                }
            }
        }
    }
}

fn param_text(params: &[Param], brace_form: bool) -> String {
    let mut s = String::new();
    for (i, p) in params.iter().enumerate() {
        s.push('#'); s.push_str(&(i + 1).to_string());
        if let Param::Delimited(d) = p { let dd: String = d.iter().filter(|c| **c != '{').collect(); s.push_str(&dd); }
    }
    if brace_form { s.push('#'); }
    s
}

fn run_case(prefix: &str, params: &[Param], brace_form: bool, repl: &str, args: &[&str]) -> Option<String> {
    // the call text: prefix, then each argument followed by its delimiter
    let mut call = String::from(prefix);
    for (p, a) in params.iter().zip(args.iter()) {
        call.push_str(a);
        if let Param::Delimited(d) = p { let dd: String = d.iter().collect(); call.push_str(&dd); }
    }
    // for the #{ form the final '{' stays in the input: close it after the call
    let tail = if brace_form { "w}zz" } else { "zz" };
    let input: Vec<char> = format!("{call}{tail}").chars().collect();
    // model
    let mut pos = prefix.chars().count();
    let mut bound: Vec<Vec<char>> = vec![];
    for p in params { let (a, np) = bind(p, &input, pos)?; bound.push(a); pos = np; }
    if brace_form { pos -= 1; }      // the '{' of #{ is not consumed (TeX.2021.392: it is put back)
    let mut expected = String::new();
    let rc: Vec<char> = repl.chars().collect();
    let mut i = 0;
    while i < rc.len() {
        if rc[i] == '#' { let n = rc[i + 1].to_digit(10).unwrap() as usize; expected.extend(bound[n - 1].iter()); i += 2; } else { expected.push(rc[i]); i += 1; }
    }
    if brace_form { expected.push('{'); }     // TeX appends the delimiting '{' to the replacement text
    expected.extend(input[pos + if brace_form { 1 } else { 0 }..].iter());
    let lhs = format!("\\def\\a {prefix}{}{{{repl}}}\\a {call}{tail}", param_text(params, brace_form));
    let rhs = expected.clone();
    let (l2, r2) = (lhs.clone(), rhs.clone());
    let ok = std::panic::catch_unwind(move || {
        let options = vec![TestOption::BuiltInCommands(built_ins)];
        texlang_testing::run_expansion_equality_test::<State, texlang::vm::DefaultHandlers>(&l2, &r2, false, &options);
    }).is_ok();
    if ok { None } else { Some(format!("{{\"fn\": \"call\", \"unit_fns\": [\"call\", \"parse_argument\", \"parse_delimited_argument\", \"parse_undelimited_argument\", \"should_trim_outer_braces_if_present\", \"perform_replacement\", \"parse_prefix_and_parameters\", \"parse_replacement_text\"], \"source\": \"{}\", \"observed\": \"expansion differs from TeX's\", \"expected\": \"{}\"}}", lhs.replace('\\', "\\\\"), rhs)) }
}

#[test]
fn macro_binding() {
    std::panic::set_hook(Box::new(|_| {}));
    let shapes = ["", "x", "{x}", "{x}{y}", "x{y}", "{{x}}", "{x}y", "xy", "{x{y}}", "{}"];
    let und_shapes = ["x", "{x}", "{xy}", "{x{y}}", "{}", " x", " {x}"];
    let delims: Vec<Vec<char>> = vec![vec!['.'], vec![','], vec!['.', ','], vec!['.', '.']];
    let repls1 = ["[#1]", "#1#1", "<#1>x", ""];
    let repls2 = ["[#1|#2]", "#2#1", "#1{#2}"];
    let mut n = 0u64;
    // one parameter
    for prefix in ["", "p"] {
        for d in &delims { for r in repls1 { for a in shapes {
            n += 1;
            if let Some(w) = run_case(prefix, &[Param::Delimited(d.clone())], false, r, &[a]) { println!("WITNESS {w}"); return; }
        } } }
        for r in repls1 { for a in und_shapes {
            n += 1;
            if let Some(w) = run_case(prefix, &[Param::Undelimited], false, r, &[a]) { println!("WITNESS {w}"); return; }
        } }
    }
    // two parameters: every combination of kinds and shapes
    for d1 in &delims[..2] { for d2 in &delims { for r in repls2 { for a1 in shapes { for a2 in shapes {
        n += 1;
        if let Some(w) = run_case("", &[Param::Delimited(d1.clone()), Param::Delimited(d2.clone())], false, r, &[a1, a2]) { println!("WITNESS {w}"); return; }
    } } } } }
    for d2 in &delims { for r in repls2 { for a1 in und_shapes { for a2 in shapes {
        n += 1;
        if let Some(w) = run_case("", &[Param::Undelimited, Param::Delimited(d2.clone())], false, r, &[a1, a2]) { println!("WITNESS {w}"); return; }
        n += 1;
        if let Some(w) = run_case("", &[Param::Delimited(d2.clone()), Param::Undelimited], false, r, &[a2, a1]) { println!("WITNESS {w}"); return; }
    } } } }
    // the trailing #{ form: \def\a#1#{..}: #1 is delimited by the brace, also with further delimiter tokens before it
    // (\def\a#1.#{..}, \def\a#1,.#{..}) and after an earlier parameter
    for d in [vec!['{'], vec!['.', '{'], vec![',', '.', '{']] { for r in repls1 { for a in ["", "x", "xy", "{x}", "{x}y", "x{y}"] {
        n += 1;
        if let Some(w) = run_case("", &[Param::Delimited(d.clone())], true, r, &[a]) { println!("WITNESS {w}"); return; }
    } } }
    for d in [vec!['{'], vec!['.', '{']] { for r in repls2 { for a1 in ["x", "{xy}"] { for a2 in ["", "y", "{y}", "y{x}"] {
        n += 1;
        if let Some(w) = run_case("", &[Param::Undelimited, Param::Delimited(d.clone())], true, r, &[a1, a2]) { println!("WITNESS {w}"); return; }
    } } } }
    // three to nine parameters (TeX allows nine): undelimited and '.'-delimited mixed, every parameter used, in reverse
    // order and the first and last twice; arguments alternate between a token and a group; also with the trailing #{
    // form after the LAST parameter (nine parameters followed by #{ is legal: TeX.2021.476 tests for the brace first)
    for k in 3..=9usize { for brace_form in [false, true] { for variant in 0..3usize {
        let mut params: Vec<Param> = (0..k).map(|i| if (i + variant) % 3 == 1 { Param::Delimited(vec!['.']) } else { Param::Undelimited }).collect();
        if brace_form { params[k - 1] = Param::Delimited(vec!['{']); }
        let repl: String = format!("{}|#1#{k}", (1..=k).rev().map(|i| format!("#{i}")).collect::<String>());
        let arg_texts: Vec<String> = (0..k).map(|i| match (i + variant) % 4 { 0 => ((b'a' + i as u8) as char).to_string(), 1 => format!("{{{}}}", (b'a' + i as u8) as char), 2 => format!("{{{}x}}", (b'a' + i as u8) as char), _ => format!("{}", (b'A' + i as u8) as char) }).collect();
        let mut args: Vec<&str> = arg_texts.iter().map(|s| s.as_str()).collect();
        if brace_form { args[k - 1] = "q"; }
        n += 1;
        if let Some(w) = run_case("", &params, brace_form, &repl, &args) { println!("WITNESS {w}"); return; }
    } } }
    // several space TOKENS in a row before an undelimited argument (the lexer never produces them; parameter substitution
    // does): TeX.2021.393 skips all of them
    for (lhs, rhs) in [
        (r"\def\a#1{[#1]}\def\b#1{\a#1 x}\b{ }!", "[x]!"),
        (r"\def\a#1{[#1]}\def\b#1#2{\a#1#2 x}\b{ }{ }!", "[x]!"),
        (r"\def\a#1#2{[#1|#2]}\def\b#1{\a#1 x#1 {yz}}\b{ }!", "[x|yz]!"),
        (r"\def\a#1{[#1]}\def\b#1{\a#1#1#1{x}}\b{ }!", "[x]!"),
    ] {
        n += 1;
        let (l2, r2) = (lhs.replace("\\", "\\"), rhs.to_string());
        let (l3, r3) = (l2.clone(), r2.clone());
        let ok = std::panic::catch_unwind(move || {
            let options = vec![TestOption::BuiltInCommands(built_ins)];
            texlang_testing::run_expansion_equality_test::<State, texlang::vm::DefaultHandlers>(&l3, &r3, false, &options);
        }).is_ok();
        if !ok {
            println!("WITNESS {{\"fn\": \"call\", \"unit_fns\": [\"call\", \"parse_undelimited_argument\", \"parse_impl\"], \"source\": \"{}\", \"observed\": \"expansion differs from TeX's\", \"expected\": \"{}\"}}", l2.replace('\\', "\\\\"), r2);
            return;
        }
    }
    println!("STATS {{\"fn\": \"call\", \"cases\": {n}}}");
}


/// C09: calls with UNBALANCED arguments (a stray closing brace before the delimiter, an unclosed group, input ending
/// inside an argument) end in success or a structured error, never a panic
#[test]
fn macro_call_total() {
    std::panic::set_hook(Box::new(|_| {}));
    let defs = [r"\def\a #1.{[#1]}", r"\def\a #1.#2,{#2#1}", r"\def\a #1#2.{#1}", r"\def\a #1#{[#1]}", r"\def\a p#1..{#1}"];
    let calls = ["x}{y.z", "}.", "x}y.", "{x.", "{{x}.y", "}}}.", "x", "", "{", "}", "x}{y.,", "{x}}{.", "p}..", "px.}."];
    for d in defs { for c in calls {
        let src = format!("{}\\a {}", d.replace("\\\\", "\\"), c);
        let s2 = src.clone();
        let r = std::panic::catch_unwind(move || {
            let mut vm = texlang::vm::VM::<State>::new_with_built_in_commands(built_ins());
            vm.push_source("".to_string(), s2).unwrap();
            let _ = vm.run::<texlang::vm::DefaultHandlers>();
        });
        if let Err(payload) = r {
            let msg = payload.downcast_ref::<String>().cloned().or_else(|| payload.downcast_ref::<&str>().map(|s| s.to_string())).unwrap_or_default();
            println!("WITNESS {{\"fn\": \"call_total\", \"unit_fns\": [\"call\", \"parse_delimited_argument\", \"parse_undelimited_argument\"], \"source\": \"{}\", \"observed\": \"panic: {}\", \"expected\": \"success or a structured error\"}}", src.replace('\\', "\\\\"), msg.replace('"', "'").replace('\\', "/").chars().take(200).collect::<String>());
            return;
        }
    } }
}
