// Bounded stand-in for property C04 (NOT a proof): LineBreaker::break_line_single_attempt (a 480-line VecDeque search
// that neither verifier can take) is run on every small paragraph from the generator below and compared with an
// exhaustive search over ALL sets of legal breakpoints under an independent transcription of TeX's definitions
// (TeX.2021.108 badness, 851-855 feasibility and fitness classes, 859 demerits, 837 discarding after a break,
// TeXbook ch. 14 legal breakpoints). Claimed: breaks are returned iff a feasible sequence exists, and the returned
// sequence has the minimal total demerits.
use super::*;
use boxworks::ds;
use common::{Glue, GlueOrder, Scaled};

struct NoFonts;
impl boxworks::FontRepo for NoFonts {
    fn width(&self, _: char, _: u32) -> Option<Scaled> { None }
    fn height(&self, _: char, _: u32) -> Option<Scaled> { None }
    fn depth(&self, _: char, _: u32) -> Option<Scaled> { None }
}
struct NoHyph;
impl boxworks::Hyphenator for NoHyph { fn hyphenate(&self, _: &mut Vec<ds::Horizontal>) {} }

const U: i32 = 65536;
fn hbox(w: i32) -> ds::Horizontal { ds::Horizontal::HBox(ds::HBox { width: Scaled(w * U), ..Default::default() }) }
fn glue(w: i32, st: i32, so: GlueOrder, sh: i32) -> ds::Horizontal {
    ds::Horizontal::Glue(ds::Glue { kind: ds::GlueKind::Normal, value: Glue { width: Scaled(w * U), stretch: Scaled(st * U), stretch_order: so, shrink: Scaled(sh * U), shrink_order: GlueOrder::Normal } })
}
fn pen(p: i32) -> ds::Horizontal { ds::Horizontal::Penalty(ds::Penalty(p)) }
fn kern(w: i32) -> ds::Horizontal { ds::Horizontal::Kern(ds::Kern { width: Scaled(w * U), kind: ds::KernKind::Explicit }) }
/// \\discretionary{pre}{post}{} with boxes of the given widths (0 = empty list); `replace` following nodes vanish at a break
fn disc(pre: i32, post: i32, replace: u32) -> ds::Horizontal {
    let b = |w: i32| -> Vec<ds::DiscretionaryElem> { if w == 0 { vec![] } else { vec![ds::DiscretionaryElem::HBox(ds::HBox { width: Scaled(w * U), ..Default::default() })] } };
    ds::Horizontal::Discretionary(ds::Discretionary { pre_break: b(pre), post_break: b(post), replace_count: replace })
}
fn font_kern(w: i32) -> ds::Horizontal { ds::Horizontal::Kern(ds::Kern { width: Scaled(w * U), kind: ds::KernKind::Normal }) }

// ---------------------------------------------------------------- the independent model
/// TeX.2021.108
fn tex_badness(t: i64, s: i64) -> i64 {
    if t == 0 { return 0; }
    if s <= 0 { return 10000; }
    let r = if t <= 7230584 { (t * 297) / s } else if s >= 1663497 { t / (s / 297) } else { t };
    if r > 1290 { 10000 } else { (r * r * r + 0o400000) / 0o1000000 }
}
fn discardable(e: &ds::Horizontal) -> bool {
    match e { ds::Horizontal::Glue(_) | ds::Horizontal::Penalty(_) => true, ds::Horizontal::Kern(k) => k.kind == ds::KernKind::Explicit, _ => false }
}
/// legal breakpoints (TeXbook p. 96) of a list without math and discretionaries; the end of the list is always one
fn legal(list: &[ds::Horizontal]) -> Vec<(usize, i32)> { legal_with(list, &Params::plain_tex_defaults()) }
fn legal_with(list: &[ds::Horizontal], p: &Params) -> Vec<(usize, i32)> {
    let mut out = vec![];
    for (i, e) in list.iter().enumerate() {
        match e {
            ds::Horizontal::Glue(_) => if i > 0 && list[i - 1].precedes_break() { out.push((i, 0)) },
            ds::Horizontal::Kern(k) => if k.kind == ds::KernKind::Explicit && matches!(list.get(i + 1), Some(ds::Horizontal::Glue(_))) { out.push((i, 0)) },
            ds::Horizontal::Penalty(p) => if p.0 < 10000 { out.push((i, p.0.max(-10000))) },
            // TeX.2021.869: a discretionary break costs \\hyphenpenalty, or \\exhyphenpenalty when its pre-break list is empty
            ds::Horizontal::Discretionary(d) => { let pen = if d.pre_break.is_empty() { p.ex_hyphen_penalty } else { p.hyphen_penalty }; if pen < 10000 { out.push((i, pen.max(-10000))) } }
            _ => {}
        }
    }
    out.push((list.len(), -10000));
    out
}
/// (badness or None when overfull, fitness class 0..3) of the line from the break at `a` (None: start) to the break at `b`
fn line(list: &[ds::Horizontal], a: Option<usize>, b: usize, width: i64) -> (Option<i64>, i32) {
    let (mut nat, mut st, mut inf, mut sh) = (0i64, 0i64, false, 0i64);
    let dwidth = |v: &Vec<ds::DiscretionaryElem>| -> i64 { v.iter().map(|e| match e { ds::DiscretionaryElem::HBox(h) => h.width.0 as i64, _ => 0 }).sum() };
    let mut start = match a { None => 0, Some(a) => a };
    match a.map(|a| &list[a]) {
        // TeX.2021.840-842: after a discretionary break the post-break list opens the line, the replaced nodes are gone;
        // with an EMPTY post-break list the discardable nodes that follow vanish as after any other break
        Some(ds::Horizontal::Discretionary(d)) => {
            start = a.unwrap() + 1 + d.replace_count as usize;
            nat += dwidth(&d.post_break);
            if d.post_break.is_empty() { while start < b && discardable(&list[start]) { start += 1; } }
        }
        // TeX.2021.837: the break node and the discardable nodes after it vanish
        Some(_) => { while start < b && discardable(&list[start]) { start += 1; } }
        None => {}
    }
    if start > b { start = b; }
    for e in &list[start..b] {
        match e {
            ds::Horizontal::HBox(h) => nat += h.width.0 as i64,
            ds::Horizontal::Kern(k) => nat += k.width.0 as i64,
            ds::Horizontal::Glue(g) => {
                nat += g.value.width.0 as i64;
                if g.value.stretch_order == GlueOrder::Normal { st += g.value.stretch.0 as i64 } else if g.value.stretch.0 != 0 { inf = true }
                sh += g.value.shrink.0 as i64;
            }
            _ => {}
        }
    }
    // TeX.2021.869: a line that ends at a discretionary ends with its pre-break list
    if let Some(ds::Horizontal::Discretionary(d)) = list.get(b) { nat += dwidth(&d.pre_break); }
    let shortfall = width - nat;
    if shortfall > 0 {
        if inf { return (Some(0), 2); }
        let b = tex_badness(shortfall, st);
        (Some(b), if b <= 12 { 2 } else if b <= 99 { 1 } else { 0 })
    } else {
        if -shortfall > sh { return (None, 3); }
        let b = tex_badness(-shortfall, sh);
        (Some(b), if b <= 12 { 2 } else { 3 })
    }
}
/// TeX.2021.859
fn tex_demerits(p: &Params, b: i64, pen: i32, prev_fit: i32, fit: i32, prev_hyph: bool, this_hyph: bool, is_final: bool) -> i64 {
    let mut d = p.line_penalty as i64 + b;
    if d.abs() >= 10000 { d = 10000 }
    d = d * d;
    let pen = pen as i64;
    if pen > 0 { d += pen * pen } else if pen > -10000 { d -= pen * pen }
    // two hyphenated lines in a row / a hyphenated line just before the last one
    if prev_hyph && is_final { d += p.final_hyphen_demerits as i64 } else if prev_hyph && this_hyph { d += p.double_hyphen_demerits as i64 }
    if (prev_fit - fit).abs() > 1 { d += p.adj_demerits as i64 }
    d
}
/// total demerits of a set of breaks (ending with the end of the list), None when some line is not within the tolerance
fn total(list: &[ds::Horizontal], breaks: &[(usize, i32)], widths: &[i64], tol: i64, p: &Params) -> Option<i64> {
    // TeX.2021.828: "if threshold>inf_bad then threshold:=inf_bad" - an overfull line (badness inf_bad+1) is never feasible
    let tol = tol.min(10000);
    let (mut prev, mut fit, mut sum) = (None, 2, 0i64);
    let mut prev_hyph = false;
    for (k, (b, pen)) in breaks.iter().enumerate() {
        let w = *widths.get(k).unwrap_or(widths.last().unwrap());
        let (bad, f) = line(list, prev, *b, w);
        let bad = bad?;
        if bad > tol { return None; }
        let this_hyph = matches!(list.get(*b), Some(ds::Horizontal::Discretionary(_)));
        sum += tex_demerits(p, bad, *pen, fit, f, prev_hyph, this_hyph, *b == list.len());
        prev = Some(*b);
        prev_hyph = this_hyph;
        fit = f;
    }
    Some(sum)
}
/// is "the line from a to b is overfull" upward closed in b for every a (the monotonicity TeX's pruning assumes)?
fn monotone(list: &[ds::Horizontal], lg: &[(usize, i32)], widths: &[i64]) -> bool {
    let mut starts: Vec<Option<usize>> = vec![None];
    starts.extend(lg.iter().map(|x| Some(x.0)));
    for w in widths { for a in &starts {
        let mut over = false;
        for (b, _) in lg {
            if let Some(a) = a { if b <= a { continue; } }
            let o = line(list, *a, *b, *w).0.is_none();
            if over && !o { return false; }
            over = over || o;
        }
    } }
    true
}

fn check(list: &[ds::Horizontal], widths: &[i32], tol: i32, params: &Params, stats: &mut [u64; 4]) -> bool {
    let lw: Vec<Scaled> = widths.iter().map(|w| Scaled(w * U)).collect();
    let lw64: Vec<i64> = lw.iter().map(|w| w.0 as i64).collect();
    let lg = legal_with(list, params);
    if !monotone(list, &lg, &lw64) { stats[3] += 1; return true; }
    let hy = NoHyph;
    let mut lb = LineBreaker { params, line_widths: &lw, line_indents: &[], debug_logger: None, hyphenator: &hy };
    let l2 = list.to_vec();
    let got = std::panic::catch_unwind(std::panic::AssertUnwindSafe(|| lb.break_line_single_attempt(&l2, &NoFonts, tol, Scaled::ZERO, false)));
    // exhaustive optimum: every subset of the legal breakpoints that contains all forced ones and the end
    let inner = &lg[..lg.len() - 1];
    let mut best: Option<i64> = None;
    // minimum demerits per number of lines (for \\looseness)
    let mut per_lines: std::collections::BTreeMap<usize, i64> = Default::default();
    for mask in 0u32..(1 << inner.len()) {
        let mut bs: Vec<(usize, i32)> = vec![];
        let mut ok = true;
        for (k, x) in inner.iter().enumerate() {
            if mask >> k & 1 == 1 { bs.push(*x) } else if x.1 <= -10000 { ok = false; break; }
        }
        if !ok { continue; }
        bs.push(*lg.last().unwrap());
        if let Some(t) = total(list, &bs, &lw64, tol as i64, params) {
            if best.map_or(true, |b| t < b) { best = Some(t) }
            let e = per_lines.entry(bs.len()).or_insert(t);
            if t < *e { *e = t; }
        }
    }
    stats[0] += 1;
    let mut wanted_lines: Option<usize> = None;
    if params.looseness != 0 {
        // TeX.2021.875: with n0 = the number of lines of the optimum, the result has n0 + looseness lines when such a
        // sequence is feasible (ties broken by demerits); otherwise this pass fails (and TeX tries the next one)
        let Some(b) = best else { return matches!(got, Ok(None)) || { println!("WITNESS {{\"fn\": \"break_line_single_attempt\", \"list\": \"looseness, infeasible\", \"observed\": \"breakpoints\", \"expected\": \"none\"}}"); false } };
        let n0s: Vec<usize> = per_lines.iter().filter(|(_, d)| **d == b).map(|(n, _)| *n).collect();
        if n0s.len() != 1 { stats[3] += 1; return true; } // the optimum is not unique in its number of lines: TeX's choice depends on list order
        let target = n0s[0] as i64 + params.looseness as i64;
        best = if target >= 1 { per_lines.get(&(target as usize)).copied() } else { None };
        wanted_lines = Some(target.max(0) as usize);
    }
    let describe = || format!("{:?}", list.iter().map(|e| match e {
        ds::Horizontal::HBox(h) => format!("box{}", h.width.0 / U), ds::Horizontal::Kern(k) => format!("{}{}", if k.kind == ds::KernKind::Explicit { "kern" } else { "fontkern" }, k.width.0 / U),
        ds::Horizontal::Penalty(p) => format!("pen{}", p.0),
        ds::Horizontal::Discretionary(d) => format!("disc({},{},{})", d.pre_break.len(), d.post_break.len(), d.replace_count),
        ds::Horizontal::Glue(g) => format!("glue{}+{}{}-{}", g.value.width.0 / U, g.value.stretch.0 / U, ["", "fil", "fill", "filll"][g.value.stretch_order as usize], g.value.shrink.0 / U),
        _ => "?".to_string() }).collect::<Vec<_>>()).replace('"', "");
    let fail = |observed: String, expected: String| {
        println!("WITNESS {{\"fn\": \"break_line_single_attempt\", \"unit_fns\": [\"break_line_single_attempt\", \"demerits\", \"badness\", \"num_nodes_for_next_class\"], \"list\": \"{}\", \"line_widths\": \"{:?}\", \"tolerance\": {}, \"observed\": \"{}\", \"expected\": \"{}\"}}", describe(), widths, tol, observed, expected);
        false
    };
    match (got, best) {
        (Err(_), _) => fail("panic".into(), "a result".into()),
        (Ok(None), None) => { stats[1] += 1; true }
        (Ok(None), Some(t)) => fail("no breakpoints".into(), format!("a feasible sequence exists (total demerits {t})")),
        (Ok(Some(v)), None) => fail(format!("breakpoints {:?}", v), "none: no sequence of legal breakpoints keeps every line within the tolerance".into()),
        (Ok(Some(v)), Some(t)) => {
            stats[2] += 1;
            let bs: Option<Vec<(usize, i32)>> = v.iter().map(|i| lg.iter().find(|x| x.0 == *i).copied()).collect();
            match bs {
                None => fail(format!("breakpoints {:?}", v), "legal breakpoints only".into()),
                Some(bs) if wanted_lines.map_or(false, |n| n != bs.len()) => fail(format!("breakpoints {:?}: {} lines", v, bs.len()), format!("{} lines (looseness {})", wanted_lines.unwrap(), params.looseness)),
                Some(bs) => match total(list, &bs, &lw64, tol as i64, params) {
                    None => fail(format!("breakpoints {:?} with a line beyond the tolerance", v), format!("a feasible sequence (minimum total demerits {t})")),
                    Some(g) if g != t => fail(format!("breakpoints {:?} with total demerits {g}", v), format!("minimum total demerits {t}")),
                    _ => true,
                },
            }
        }
    }
}

#[test] fn optimal_breaks_0() { optimal_breaks(0, 4); }
#[test] fn optimal_breaks_1() { optimal_breaks(1, 4); }
#[test] fn optimal_breaks_2() { optimal_breaks(2, 4); }
#[test] fn optimal_breaks_3() { optimal_breaks(3, 4); }
fn optimal_breaks(part: usize, parts: usize) {
    std::panic::set_hook(Box::new(|_| {}));
    let thorough = std::env::var("VERIF_TIER").map(|t| t == "thorough").unwrap_or(false);
    let params = Params::plain_tex_defaults();
    let mut params2 = Params::plain_tex_defaults();
    params2.adj_demerits = 3000; params2.line_penalty = 50;
    // plain TeX has \\hyphenpenalty = \\exhyphenpenalty = 50; which of the two a discretionary is charged (TeX.2021.869: the
    // pre-break list alone decides) only shows when they differ
    params2.hyphen_penalty = 120; params2.ex_hyphen_penalty = 30;
    let mut params3 = Params::plain_tex_defaults(); params3.looseness = 1; params3.hyphen_penalty = 10000;
    let mut params4 = Params::plain_tex_defaults(); params4.looseness = -1;
    // separators between two boxes: (nodes, ..)
    let seps: Vec<Vec<ds::Horizontal>> = vec![
        vec![glue(1, 1, GlueOrder::Normal, 1)],
        vec![glue(2, 3, GlueOrder::Normal, 1)],
        vec![glue(1, 0, GlueOrder::Normal, 0)],
        vec![pen(50), glue(1, 1, GlueOrder::Normal, 1)],
        vec![pen(-50), glue(1, 2, GlueOrder::Normal, 0)],
        vec![pen(10000), glue(1, 1, GlueOrder::Normal, 1)],
        vec![pen(-10000)],
        vec![kern(1), glue(1, 1, GlueOrder::Normal, 1)],
        vec![],
        // a font kern after a glue breakpoint is NOT discarded (TeX.2021.837: only explicit kerns are)
        vec![glue(1, 1, GlueOrder::Normal, 1), font_kern(1)],
        // penalties beyond -10000 force a break like -10000 (TeX.2021.831)
        vec![pen(-20000)],
        // every order of infinite stretch makes a short line perfect (TeX.2021.852)
        vec![glue(1, 1, GlueOrder::Fill, 0)],
        vec![glue(1, 1, GlueOrder::Filll, 0)],
        // discretionaries: a hyphen (pre-break box 1), an explicit hyphen followed by a space (empty lists, then glue),
        // one with a post-break box, one that replaces the following box
        vec![disc(1, 0, 0)],
        vec![disc(0, 0, 0), glue(1, 1, GlueOrder::Normal, 1)],
        vec![disc(1, 1, 0)],
        vec![disc(1, 1, 1), hbox(1)],
        // empty pre-break list but a post-break box: still an EXPLICIT hyphen (\\exhyphenpenalty)
        vec![disc(0, 1, 0)],
    ];
    let boxes = [2, 3, 5];
    let mut stats = [0u64; 4];
    let max_words = 5;
    for n in 1..=max_words {
        // every assignment of box widths and separators (separator index n-1 unused)
        let nb = boxes.len().pow(n as u32);
        let ns = seps.len().pow(n as u32 - 1);
        for bi in 0..nb { for si in 0..ns {
            if (bi + 3 * si) % parts != part { continue; }
            // thin the larger spaces (quick: 4 boxes 1 in 5; thorough: 5 boxes 1 in 37)
            if !thorough && n == 4 && (bi * 7 + si) % 5 != 0 { continue; }
            if n == 5 && (bi * 7 + si) % (if thorough { 37 } else { 1201 }) != 0 { continue; }
            let mut list = vec![];
            let (mut b, mut s) = (bi, si);
            for k in 0..n {
                list.push(hbox(boxes[b % boxes.len()])); b /= boxes.len();
                if k + 1 < n { list.extend(seps[s % seps.len()].iter().cloned()); s /= seps.len(); }
            }
            // TeX.2021.816: the paragraph ends with \\penalty10000 \\parfillskip; on a sixth of the paragraphs also with a FINITE
            // \\parfillskip, so that the last line has a fitness class of its own and the final candidates differ in it
            // (TeX.2021.874-875 chooses among them by total demerits)
            let sixth = (bi + si) % 6 == 0;
            for finite_end in [false, true] {
                if finite_end && !sixth { continue; }
                let mut list = list.clone();
                list.push(pen(10000));
                list.push(if finite_end { glue(0, 3, GlueOrder::Normal, 0) } else { glue(0, 1, GlueOrder::Fil, 0) });
                // (one, two and three different line widths; the last one repeats)
                for widths in [&[6][..], &[8][..], &[5, 9][..], &[11][..], &[4, 7, 10][..], &[9, 5, 7][..]] { for tol in [200, 10000, 20000] {
                    for p in [&params, &params2] {
                        if !check(&list, widths, tol, p, &mut stats) { return; }
                    }
                    // \\looseness +-1 on a sixth of the paragraphs
                    if sixth { for p in [&params3, &params4] { if !check(&list, widths, tol, p, &mut stats) { return; } } }
                } }
            }
        } }
    }
    println!("STATS {{\"driver\": \"kp_search\", \"paragraphs_checked\": {}, \"no_solution\": {}, \"solutions_compared\": {}, \"non_monotone_skipped\": {}}}", stats[0], stats[1], stats[2], stats[3]);
}
