// Bounded stand-in for HBox::pack (property C15). Verus cannot take the function (array/slice patterns, Rc<dyn Whatsit>
// in the node enum) and CBMC does not finish on the node enum's drop glue, so the real function is run on every list of
// up to 3 nodes over 22 node templates x 9 targets and compared with an independent transcription of TeX.2021.649-667
// that keeps a total per order of infinity.
use crate::ds::*;
use crate::FontRepo;
use common::{GlueOrder, Scaled};

struct Repo;
impl FontRepo for Repo {
    fn width(&self, c: char, _f: u32) -> Option<Scaled> { if c == 'a' { Some(Scaled(5 << 16)) } else { None } }
    fn height(&self, _c: char, _f: u32) -> Option<Scaled> { Some(Scaled(7 << 16)) }
    fn depth(&self, _c: char, _f: u32) -> Option<Scaled> { Some(Scaled(2 << 16)) }
}
fn oi(o: GlueOrder) -> usize { match o { GlueOrder::Normal => 0, GlueOrder::Fil => 1, GlueOrder::Fill => 2, GlueOrder::Filll => 3 } }
fn pt(x: i32) -> Scaled { Scaled(x << 16) }

fn glue(w: i32, st: i32, so: GlueOrder, sh: i32, ho: GlueOrder) -> Horizontal {
    Horizontal::Glue(Glue { value: common::Glue { width: pt(w), stretch: pt(st), stretch_order: so, shrink: pt(sh), shrink_order: ho }, kind: GlueKind::Normal })
}
fn templates() -> Vec<Horizontal> {
    use GlueOrder::*;
    vec![
        Horizontal::Char(Char { char: 'a', font: 0 }), Horizontal::Char(Char { char: 'z', font: 0 }),
        Horizontal::Rule(Rule { height: pt(3), width: pt(11), depth: pt(1) }), Horizontal::Rule(Rule { height: pt(-2), width: pt(4), depth: pt(9) }),
        Horizontal::Kern(Kern { width: pt(2), kind: KernKind::Normal }), Horizontal::Kern(Kern { width: pt(-3), kind: KernKind::Normal }),
        Horizontal::HBox(HBox { height: pt(6), width: pt(13), depth: pt(1), shift_amount: pt(2), list: vec![], glue_ratio: Default::default(), glue_order: Normal }),
        Horizontal::HBox(HBox { height: pt(1), width: pt(8), depth: pt(0), shift_amount: pt(-4), list: vec![], glue_ratio: Default::default(), glue_order: Normal }),
        Horizontal::VBox(VBox { height: pt(10), width: pt(2), depth: pt(3), shift_amount: pt(1), list: vec![], glue_ratio: Default::default(), glue_order: Normal }),
        Horizontal::Penalty(Penalty(50)),
        glue(3, 1, Normal, 1, Normal), glue(3, 2, Normal, 0, Normal), glue(0, 0, Normal, 4, Normal), glue(1, -1, Normal, -1, Normal),
        glue(2, 1, Fil, 0, Normal), glue(2, -1, Fil, 1, Fil), glue(0, 0, Fil, 0, Fil), glue(0, 1, Fill, 2, Fill), glue(0, -1, Fill, -2, Fill),
        glue(1, 3, Filll, 0, Normal), glue(0, 0, Filll, 3, Filll), glue(4, 0, Normal, 0, Normal),
    ]
}

fn top(t: &[i64; 4]) -> usize { if t[3] != 0 { 3 } else if t[2] != 0 { 2 } else if t[1] != 0 { 1 } else { 0 } }

fn check(list: &[Horizontal], exact: bool, target: Scaled) -> Option<String> {
    // model (TeX.2021.649-656)
    let (mut w, mut h, mut d, mut st, mut sh) = (0i64, 0i64, 0i64, [0i64; 4], [0i64; 4]);
    for n in list {
        match n {
            Horizontal::Char(c) => if let Some([cw, ch, cd]) = Repo.width_height_depth(c.char, c.font) { w += cw.0 as i64; h = h.max(ch.0 as i64); d = d.max(cd.0 as i64); },
            Horizontal::Rule(r) => { w += r.width.0 as i64; h = h.max(r.height.0 as i64); d = d.max(r.depth.0 as i64); }
            Horizontal::Kern(k) => w += k.width.0 as i64,
            Horizontal::HBox(b) => { w += b.width.0 as i64; h = h.max((b.height.0 - b.shift_amount.0) as i64); d = d.max((b.depth.0 + b.shift_amount.0) as i64); }
            Horizontal::VBox(b) => { w += b.width.0 as i64; h = h.max((b.height.0 - b.shift_amount.0) as i64); d = d.max((b.depth.0 + b.shift_amount.0) as i64); }
            Horizontal::Glue(g) => { w += g.value.width.0 as i64; st[oi(g.value.stretch_order)] += g.value.stretch.0 as i64; sh[oi(g.value.shrink_order)] += g.value.shrink.0 as i64; }
            _ => {}
        }
    }
    let l2 = list.to_vec();
    let b = std::panic::catch_unwind(std::panic::AssertUnwindSafe(move || HBox::pack(&Repo, l2, if exact { PackWidth::Exact(target) } else { PackWidth::Additional(target) }))).ok();
    let Some(b) = b else { return Some("panic".into()); };
    let width = if exact { target.0 as i64 } else { w + target.0 as i64 };
    if b.width.0 as i64 != width { return Some(format!("width {} but natural width (sum of the item WIDTHS) is {w}, so the box width must be {width}", b.width.0)); }
    if b.height.0 as i64 != h { return Some(format!("height {} but the maximum over items (shifted boxes adjusted) is {h}", b.height.0)); }
    if b.depth.0 as i64 != d { return Some(format!("depth {} but the maximum over items (shifted boxes adjusted) is {d}", b.depth.0)); }
    let x = width - w;
    let (num, den) = (b.glue_ratio.num.0 as i64, b.glue_ratio.den.0 as i64);
    if den == 0 { return Some("glue ratio with zero denominator".into()); }
    // TeX.2021.658: x = 0 leaves the box unset: glue_sign normal, glue_ORDER normal, ratio zero
    if x == 0 { if num != 0 { return Some("exact fit but glue is set".into()); } if oi(b.glue_order) != 0 { return Some(format!("exact fit (excess 0) but glue order {:?}: TeX.2021.658 sets it to normal", b.glue_order)); } }
    else if x > 0 {
        let o = top(&st);
        if st[o] != 0 {
            if oi(b.glue_order) != o { return Some(format!("glue order {:?} but the highest order with NON-ZERO total stretch is {o} (totals {st:?})", b.glue_order)); }
            // natural width + ratio * total stretch == box width, WITH sign (a negative total stretch needs a negative ratio)
            if num * st[o] != x * den { return Some(format!("glue ratio {num}/{den} does not make total stretch {} fill the excess {x}", st[o])); }
        } else if num != 0 { return Some(format!("no stretchability (totals {st:?}) but glue ratio {num}/{den} is set")); }
        else if oi(b.glue_order) != 0 { return Some(format!("no stretchability but glue order {:?} (TeX.2021.659: o = normal)", b.glue_order)); }
    } else {
        let o = top(&sh);
        if sh[o] != 0 {
            if oi(b.glue_order) != o { return Some(format!("glue order {:?} but the highest order with NON-ZERO total shrink is {o} (totals {sh:?})", b.glue_order)); }
            if o == 0 && sh[0] < -x { if num.abs() != den.abs() { return Some(format!("overfull box must shrink by exactly its shrinkability (ratio 1), got {num}/{den}")); } }
            // the same equation for shrinking: natural width + ratio * total shrink == box width (the ratio is negative)
            else if num * sh[o] != x * den { return Some(format!("glue ratio {num}/{den} does not make total shrink {} absorb the excess {x}", sh[o])); }
        } else if num != 0 { return Some(format!("no shrinkability (totals {sh:?}) but glue ratio {num}/{den} is set")); }
        else if oi(b.glue_order) != 0 { return Some(format!("no shrinkability but glue order {:?} (TeX.2021.665: o = normal)", b.glue_order)); }
    }
    None
}

#[test]
fn pack_lists() {
    std::panic::set_hook(Box::new(|_| {}));
    let ts = templates();
    let n = ts.len();
    let targets = [pt(0), pt(1), pt(-1), pt(5), pt(-5), pt(20), pt(-20), pt(100), Scaled(12345)];
    let mut cases = 0u64;
    // thorough tier: every list of up to FOUR nodes
    let max_len = if std::env::var("VERIF_TIER").map(|t| t == "thorough").unwrap_or(false) { 4usize } else { 3 };
    for len in 0..=max_len {
        let mut idx = vec![0usize; len];
        loop {
            let list: Vec<Horizontal> = idx.iter().map(|&i| ts[i].clone()).collect();
            for exact in [true, false] { for t in targets {
                cases += 1;
                if let Some(why) = check(&list, exact, t) {
                    let names: Vec<String> = list.iter().map(|n| format!("{n:?}").chars().take(90).collect()).collect();
                    println!("WITNESS {{\"fn\": \"pack\", \"list\": \"{}\", \"pack_width\": \"{} {}sp\", \"observed\": \"{}\", \"expected\": \"TeX.2021.649-667\"}}",
                        names.join(" ; ").replace('"', "'"), if exact { "Exact" } else { "Additional" }, t.0, why.replace('"', "'"));
                    return;
                }
            } }
            let mut p = 0;
            loop { if p == len { break; } idx[p] += 1; if idx[p] < n { break; } idx[p] = 0; p += 1; }
            if p == len { break; }
        }
    }
    // longer lists with values outside the templates: pseudo-random lists of 4..9 nodes
    let mut state: u64 = 0x853C49E6748FEA9B;
    let mut next = move || { state ^= state << 13; state ^= state >> 7; state ^= state << 17; state };
    let orders = [GlueOrder::Normal, GlueOrder::Fil, GlueOrder::Fill, GlueOrder::Filll];
    for _ in 0..60_000 {
        let len = 4 + (next() % 6) as usize;
        let mut list: Vec<Horizontal> = vec![];
        for _ in 0..len {
            let v = |next: &mut dyn FnMut() -> u64, lo: i64, hi: i64| -> Scaled { Scaled((lo + (next() % (hi - lo + 1) as u64) as i64) as i32) };
            let node = match next() % 8 {
                0 => Horizontal::Char(Char { char: if next() % 3 == 0 { 'z' } else { 'a' }, font: 0 }),
                1 => Horizontal::Rule(Rule { height: v(&mut next, -300000, 900000), width: v(&mut next, 0, 2000000), depth: v(&mut next, -300000, 900000) }),
                2 => Horizontal::Kern(Kern { width: v(&mut next, -500000, 900000), kind: if next() % 2 == 0 { KernKind::Normal } else { KernKind::Explicit } }),
                3 => Horizontal::HBox(HBox { height: v(&mut next, 0, 900000), width: v(&mut next, 0, 2000000), depth: v(&mut next, 0, 500000), shift_amount: v(&mut next, -400000, 400000), list: vec![], glue_ratio: Default::default(), glue_order: GlueOrder::Normal }),
                4 => Horizontal::Penalty(Penalty(50)),
                _ => {
                    let so = orders[(next() % 4) as usize]; let ho = orders[(next() % 4) as usize];
                    let amount = |next: &mut dyn FnMut() -> u64| -> Scaled { match next() % 5 { 0 => Scaled(0), 1 => Scaled(-((next() % 300000) as i32)), _ => Scaled((next() % 600000) as i32) } };
                    Horizontal::Glue(Glue { value: common::Glue { width: v(&mut next, -200000, 700000), stretch: amount(&mut next), stretch_order: so, shrink: amount(&mut next), shrink_order: ho }, kind: GlueKind::Normal })
                }
            };
            list.push(node);
        }
        let exact = next() % 2 == 0;
        let t = Scaled(((next() % 8000000) as i64 - 2000000) as i32);
        cases += 1;
        if let Some(why) = check(&list, exact, t) {
            let names: Vec<String> = list.iter().map(|n| format!("{n:?}").chars().take(120).collect()).collect();
            println!("WITNESS {{\"fn\": \"pack\", \"list\": \"{}\", \"pack_width\": \"{} {}sp\", \"observed\": \"{}\", \"expected\": \"TeX.2021.649-667\"}}",
                names.join(" ; ").replace('"', "'"), if exact { "Exact" } else { "Additional" }, t.0, why.replace('"', "'"));
            return;
        }
    }
    println!("STATS {{\"fn\": \"pack\", \"cases\": {cases}}}");
}
