// Bounded stand-in for the VM-level part of group scoping (property C01): what the contracts of the scoped map, the
// save stack, the command map and the \global flag are about, observed end to end.  Every program of <= 5 operations
// over { {, }, local/\global assignment to a \count register, \def/\gdef of a control sequence and of an ACTIVE
// character, \let/\global\let, \countdef alias assignment, \catcode change, \globaldefs } is run in the real VM with the
// full standard library; all values are read after every step and compared with a stack-of-snapshots model.
use crate::StdLibState;
use texlang::vm;

fn run(source: &str) -> Option<Result<String, String>> {
    let src = source.to_string();
    std::panic::catch_unwind(move || {
        let mut vm = vm::VM::<StdLibState>::new();
        vm.push_source("input.tex", src).unwrap();
        crate::script::run_to_string(&mut vm).map_err(|err| format!("{err}"))
    }).ok()
}

/// the observable state: \count1, \count2 (also reachable through the alias \cc), the macros \a, \b (a \let alias) and
/// the active character ~, the category code of `!`, \globaldefs
#[derive(Clone, PartialEq, Debug)]
struct St { c1: i32, c2: i32, a: u8, b: u8, tilde: u8, cat: u8, gd: i32 }

#[derive(Clone, Copy, Debug, PartialEq)]
enum Op { Begin, End, Count1(bool, i32), Alias(bool, i32), DefA(bool, u8), DefTilde(bool, u8), LetB(bool), Cat(bool, u8), GlobalDefs(i32), DefAP(u8, u8), Adv(bool), LetAA(bool) }

fn tex(op: Op) -> String {
    let g = |b: bool| if b { "\\global" } else { "" };
    match op {
        Op::Begin => "{".into(), Op::End => "}".into(),
        Op::Count1(gl, v) => format!("{}\\count1={v} ", g(gl)),
        Op::Alias(gl, v) => format!("{}\\cc={v} ", g(gl)),
        Op::DefA(gl, v) => format!("{}\\def\\a{{{v}}}", g(gl)),
        Op::DefTilde(gl, v) => format!("{}\\def~{{{v}}}", g(gl)),
        Op::LetB(gl) => format!("{}\\let\\b=\\a ", g(gl)),
        Op::Cat(gl, v) => format!("{}\\catcode`\\!={v} ", g(gl)),
        Op::GlobalDefs(v) => format!("\\globaldefs={v} "),
        // several prefixes in a row: \global may come first, second or last, or not at all
        Op::DefAP(k, v) => format!("{}\\def\\a{{{v}}}", ["\\long", "\\long\\global", "\\global\\long\\outer", "\\outer\\long\\global"][k as usize]),
        Op::Adv(gl) => format!("{}\\advance\\count1 by 1 ", g(gl)),
        // a name aliased to ITSELF: locally a no-op, globally it promotes the current meaning to every level
        Op::LetAA(gl) => format!("{}\\let\\a=\\a ", g(gl)),
    }
}

fn apply(cur: &mut St, saved: &mut Vec<St>, op: Op) -> bool {
    // effective scope: \globaldefs > 0 forces global, < 0 forces local, = 0 uses the prefix
    let eff = |gl: bool, gd: i32| if gd > 0 { true } else if gd < 0 { false } else { gl };
    fn set(cur: &mut St, saved: &mut Vec<St>, global: bool, f: impl Fn(&mut St)) { f(cur); if global { for s in saved.iter_mut() { f(s); } } }
    match op {
        Op::Begin => saved.push(cur.clone()),
        Op::End => match saved.pop() { Some(s) => *cur = s, None => return false },
        Op::Count1(gl, v) => { let e = eff(gl, cur.gd); set(cur, saved, e, |s| s.c1 = v) }
        Op::Alias(gl, v) => { let e = eff(gl, cur.gd); set(cur, saved, e, |s| s.c2 = v) }
        Op::DefA(gl, v) => { let e = eff(gl, cur.gd); set(cur, saved, e, |s| s.a = v) }
        Op::DefTilde(gl, v) => { let e = eff(gl, cur.gd); set(cur, saved, e, |s| s.tilde = v) }
        Op::LetB(gl) => { let e = eff(gl, cur.gd); let a = cur.a; set(cur, saved, e, |s| s.b = a) }
        Op::Cat(gl, v) => { let e = eff(gl, cur.gd); set(cur, saved, e, |s| s.cat = v) }
        // \globaldefs is itself an integer parameter: the assignment obeys the CURRENT \globaldefs
        Op::GlobalDefs(v) => { let e = eff(false, cur.gd); set(cur, saved, e, |s| s.gd = v) }
        Op::DefAP(k, v) => { let e = eff(k >= 1, cur.gd); set(cur, saved, e, |s| s.a = v) }
        Op::Adv(gl) => { let e = eff(gl, cur.gd); let n = cur.c1 + 1; set(cur, saved, e, |s| s.c1 = n) }
        Op::LetAA(gl) => { let e = eff(gl, cur.gd); let a = cur.a; set(cur, saved, e, |s| s.a = a) }
    }
    true
}

const READ: &str = "[\\the\\count1,\\the\\count2,\\a,\\b,~,\\the\\catcode`\\!,\\the\\globaldefs]";
fn expect(s: &St) -> String { format!("[{},{},{},{},{},{},{}]", s.c1, s.c2, s.a, s.b, s.tilde, s.cat, s.gd) }

fn histories(part: usize, parts: usize) {
    std::panic::set_hook(Box::new(|_| {}));
    let thorough = std::env::var("VERIF_TIER").map(|t| t == "thorough").unwrap_or(false);
    let ops = [Op::Begin, Op::End, Op::Count1(false, 5), Op::Count1(true, 6), Op::Alias(false, 7), Op::Alias(true, 8),
        Op::DefA(false, 2), Op::DefA(true, 3), Op::DefTilde(false, 4), Op::DefTilde(true, 5), Op::LetB(false), Op::LetB(true),
        Op::Cat(false, 11), Op::Cat(true, 12), Op::GlobalDefs(1), Op::GlobalDefs(-1), Op::GlobalDefs(0),
        Op::DefAP(0, 6), Op::DefAP(1, 7), Op::DefAP(2, 8), Op::DefAP(3, 9), Op::Adv(false), Op::Adv(true), Op::LetAA(false), Op::LetAA(true)];
    let prelude = "\\catcode`\\~=13 \\countdef\\cc=2 \\count1=1 \\count2=1 \\def\\a{1}\\def\\b{1}\\def~{1}\\catcode`\\!=12 ";
    let init = St { c1: 1, c2: 1, a: 1, b: 1, tilde: 1, cat: 12, gd: 0 };
    let n = ops.len();
    let mut cases = 0u64;
    for len in 1..=5usize {
        let mut idx = vec![0usize; len];
        'hist: loop {
            let h: Vec<Op> = idx.iter().map(|&i| ops[i]).collect();
            // skip histories that close a group that is not open, and (to keep the space small) those without any group
            let mut ok = h.contains(&Op::Begin) || len <= 2;
            if idx[0] % parts != part { ok = false; }
            // quick tier: length <= 3 exhaustively, length 4 with a group opened in the first two steps, length 5 starting
            // with two nested groups (the depth >= 2 histories the property singles out); thorough: everything
            if !thorough && ((len == 4 && h[0] != Op::Begin && h[1] != Op::Begin) || (len == 5 && !(h[0] == Op::Begin && h[1] == Op::Begin))) { ok = false; }
            let mut depth = 0i32;
            for op in &h { if *op == Op::Begin { depth += 1 } if *op == Op::End { depth -= 1; if depth < 0 { ok = false } } }
            if ok {
                let (mut cur, mut saved) = (init.clone(), vec![]);
                let mut src = String::from(prelude);
                let mut want = String::new();
                for op in &h { apply(&mut cur, &mut saved, *op); src.push_str(&tex(*op)); src.push_str(READ); want.push_str(&expect(&cur)); }
                while !saved.is_empty() { apply(&mut cur, &mut saved, Op::End); src.push('}'); src.push_str(READ); want.push_str(&expect(&cur)); }
                cases += 1;
                let got = run(&src);
                let good = matches!(&got, Some(Ok(out)) if out.split_whitespace().collect::<String>() == want);
                if !good {
                    let obs = match &got { None => "panic".to_string(), Some(Err(_)) => "error".to_string(), Some(Ok(o)) => o.split_whitespace().collect::<String>() };
                    println!("WITNESS {{\"fn\": \"run\", \"unit_fns\": [\"insert\", \"end_group\", \"begin_group\", \"update_save_stack\", \"set\", \"read_and_reset_global\", \"set_scope\"], \"history\": \"{}\", \"observed\": \"{}\", \"expected\": \"{}\"}}",
                        h.iter().map(|o| tex(*o)).collect::<String>().replace('\\', "\\\\").replace('"', "'"), obs.replace('"', "'").replace('\\', "/"), want);
                    return;
                }
            }
            let mut p = 0;
            loop { if p == len { break 'hist; } idx[p] += 1; if idx[p] < n { break; } idx[p] = 0; p += 1; }
        }
    }
    println!("STATS {{\"fn\": \"run\", \"cases\": {cases}}}");
}
#[test] fn group_scoping_histories_0() { histories(0, 4); }
#[test] fn group_scoping_histories_1() { histories(1, 4); }
#[test] fn group_scoping_histories_2() { histories(2, 4); }
#[test] fn group_scoping_histories_3() { histories(3, 4); }


// ---------------------------------------------------------------- the other variable kinds and arithmetic that changes nothing
/// \dimen and \skip registers next to \count (each kind has its own save-stack slot), and \advance / \multiply / \divide
/// whose result EQUALS the old value (by 0, by 1): locally a no-op, but with \global the value must still become global.
/// Every history of <= 3 operations, of 4 starting with a group, of 5 starting with two nested groups.
#[test]
fn variable_kinds_and_noop_arithmetic() {
    std::panic::set_hook(Box::new(|_| {}));
    #[derive(Clone, Copy, PartialEq, Debug)]
    enum V { Begin, End, Count(bool, i32), Dimen(bool, i32), Skip(bool, i32), AdvCount(bool, i32), MulCount(bool, i32), AdvDimen(bool, i32), DivDimen(bool, i32), AdvSkip(bool, i32), MulSkip(bool, i32), Toks(bool, char), Endline(bool, i32) }
    let g = |b: bool| if b { "\\global" } else { "" };
    let tex = |o: V| match o {
        V::Begin => "{".to_string(), V::End => "}".to_string(),
        V::Count(gl, v) => format!("{}\\count1={v} ", g(gl)), V::Dimen(gl, v) => format!("{}\\dimen1={v}pt ", g(gl)), V::Skip(gl, v) => format!("{}\\skip1={v}pt\\relax ", g(gl)),
        V::AdvCount(gl, v) => format!("{}\\advance\\count1 by {v} ", g(gl)), V::MulCount(gl, v) => format!("{}\\multiply\\count1 by {v} ", g(gl)),
        V::AdvDimen(gl, v) => format!("{}\\advance\\dimen1 by {v}pt ", g(gl)), V::DivDimen(gl, v) => format!("{}\\divide\\dimen1 by {v} ", g(gl)),
        V::AdvSkip(gl, v) => format!("{}\\advance\\skip1 by {v}pt\\relax ", g(gl)), V::MulSkip(gl, v) => format!("{}\\multiply\\skip1 by {v} ", g(gl)),
        // a token-list register and the integer parameter \\endlinechar (values that leave the single input line alone)
        V::Toks(gl, c) => format!("{}\\toks1={{{c}}}", g(gl)), V::Endline(gl, v) => format!("{}\\endlinechar={v} ", g(gl)),
    };
    #[derive(Clone, PartialEq, Debug)]
    struct S3 { c: i32, d: i32, s: i32, t: char, e: i32 }
    fn set3(cur: &mut S3, saved: &mut Vec<S3>, global: bool, f: impl Fn(&mut S3)) { f(cur); if global { for s in saved.iter_mut() { f(s); } } }
    let apply3 = |cur: &mut S3, saved: &mut Vec<S3>, o: V| match o {
        V::Begin => saved.push(cur.clone()),
        V::End => { if let Some(s) = saved.pop() { *cur = s } }
        V::Count(gl, v) => set3(cur, saved, gl, |s| s.c = v), V::Dimen(gl, v) => set3(cur, saved, gl, |s| s.d = v), V::Skip(gl, v) => set3(cur, saved, gl, |s| s.s = v),
        V::AdvCount(gl, v) => { let n = cur.c + v; set3(cur, saved, gl, |s| s.c = n) } V::MulCount(gl, v) => { let n = cur.c * v; set3(cur, saved, gl, |s| s.c = n) }
        V::AdvDimen(gl, v) => { let n = cur.d + v; set3(cur, saved, gl, |s| s.d = n) } V::DivDimen(gl, v) => { let n = cur.d / v; set3(cur, saved, gl, |s| s.d = n) }
        V::AdvSkip(gl, v) => { let n = cur.s + v; set3(cur, saved, gl, |s| s.s = n) } V::MulSkip(gl, v) => { let n = cur.s * v; set3(cur, saved, gl, |s| s.s = n) }
        V::Toks(gl, c) => set3(cur, saved, gl, |s| s.t = c), V::Endline(gl, v) => set3(cur, saved, gl, |s| s.e = v),
    };
    let ops = [V::Begin, V::End, V::Count(false, 5), V::Dimen(false, 5), V::Dimen(true, 6), V::Skip(false, 7), V::Skip(true, 8),
        V::AdvCount(true, 0), V::MulCount(true, 1), V::AdvDimen(false, 2), V::AdvDimen(true, 0), V::DivDimen(true, 1), V::AdvSkip(false, 2), V::AdvSkip(true, 0), V::MulSkip(true, 1), V::AdvCount(false, 0),
        V::Toks(false, 'b'), V::Toks(true, 'c'), V::Endline(false, -1), V::Endline(true, 32)];
    const READ3: &str = "[\\the\\count1,\\the\\dimen1,\\the\\skip1,\\the\\toks1,\\the\\endlinechar]";
    let expect3 = |s: &S3| format!("[{},{}.0pt,{}.0pt,{},{}]", s.c, s.d, s.s, s.t, s.e);
    let n = ops.len();
    let mut cases = 0u64;
    for len in 1..=5usize {
        let mut idx = vec![0usize; len];
        'hist: loop {
            let h: Vec<V> = idx.iter().map(|&i| ops[i]).collect();
            let mut ok = !((len == 4 && h[0] != V::Begin) || (len == 5 && !(h[0] == V::Begin && h[1] == V::Begin)));
            let mut depth = 0i32;
            for op in &h { if *op == V::Begin { depth += 1 } if *op == V::End { depth -= 1; if depth < 0 { ok = false } } }
            if ok {
                let (mut cur, mut saved) = (S3 { c: 1, d: 1, s: 1, t: 'a', e: 13 }, vec![]);
                let mut src = String::from("\\count1=1 \\dimen1=1pt \\skip1=1pt\\relax \\toks1={a}");
                let mut want = String::new();
                for op in &h { apply3(&mut cur, &mut saved, *op); src.push_str(&tex(*op)); src.push_str(READ3); want.push_str(&expect3(&cur)); }
                while !saved.is_empty() { apply3(&mut cur, &mut saved, V::End); src.push('}'); src.push_str(READ3); want.push_str(&expect3(&cur)); }
                cases += 1;
                let got = run(&src);
                let good = matches!(&got, Some(Ok(out)) if out.split_whitespace().collect::<String>() == want);
                if !good {
                    let obs = match &got { None => "panic".to_string(), Some(Err(_)) => "error".to_string(), Some(Ok(o)) => o.split_whitespace().collect::<String>() };
                    println!("WITNESS {{\"fn\": \"run\", \"unit_fns\": [\"update_save_stack\", \"set\", \"restore\", \"apply_to_variable\"], \"history\": \"{}\", \"observed\": \"{}\", \"expected\": \"{}\"}}",
                        h.iter().map(|o| tex(*o)).collect::<String>().replace('\\', "\\\\").replace('"', "'"), obs.replace('"', "'").replace('\\', "/"), want);
                    return;
                }
            }
            let mut p = 0;
            loop { if p == len { break 'hist; } idx[p] += 1; if idx[p] < n { break; } idx[p] = 0; p += 1; }
        }
    }
    println!("STATS {{\"fn\": \"variable kinds / no-op arithmetic\", \"cases\": {cases}}}");
}

// ---------------------------------------------------------------- array elements, \chardef names, \let of an active character
/// two elements of the SAME array variable (\catcode`\! and \catcode`\?: one save-stack key each), a \chardef'd name, an active
/// character redefined by \let - each locally and globally. Every history of <= 4 operations, of 5 starting with two groups.
#[test]
fn array_elements_and_definitions() {
    std::panic::set_hook(Box::new(|_| {}));
    #[derive(Clone, Copy, PartialEq, Debug)]
    enum D { Begin, End, Cat1(bool, u8), Cat2(bool, u8), Chardef(bool, u8), LetTilde(bool, u8), DefTilde(bool, u8) }
    let g = |b: bool| if b { "\\global" } else { "" };
    let tex = |o: D| match o {
        D::Begin => "{".to_string(), D::End => "}".to_string(),
        D::Cat1(gl, v) => format!("{}\\catcode`\\!={v} ", g(gl)), D::Cat2(gl, v) => format!("{}\\catcode`\\?={v} ", g(gl)),
        D::Chardef(gl, v) => format!("{}\\chardef\\c={v} ", g(gl)),
        D::LetTilde(gl, v) => format!("{}\\let~=\\m{} ", g(gl), ['z', 'a', 'b', 'c', 'd', 'e', 'f', 'g', 'h'][v as usize]),
        D::DefTilde(gl, v) => format!("{}\\def~{{{v}}}", g(gl)),
    };
    #[derive(Clone, PartialEq, Debug)]
    struct S4 { c1: u8, c2: u8, ch: u8, t: u8 }
    fn set4(cur: &mut S4, saved: &mut Vec<S4>, global: bool, f: impl Fn(&mut S4)) { f(cur); if global { for s in saved.iter_mut() { f(s); } } }
    let apply4 = |cur: &mut S4, saved: &mut Vec<S4>, o: D| match o {
        D::Begin => saved.push(cur.clone()),
        D::End => { if let Some(s) = saved.pop() { *cur = s } }
        D::Cat1(gl, v) => set4(cur, saved, gl, |s| s.c1 = v), D::Cat2(gl, v) => set4(cur, saved, gl, |s| s.c2 = v),
        D::Chardef(gl, v) => set4(cur, saved, gl, |s| s.ch = v), D::LetTilde(gl, v) | D::DefTilde(gl, v) => set4(cur, saved, gl, |s| s.t = v),
    };
    let ops = [D::Begin, D::End, D::Cat1(false, 11), D::Cat1(true, 7), D::Cat2(false, 11), D::Cat2(true, 8), D::Chardef(false, 65), D::Chardef(true, 66),
        D::LetTilde(false, 7), D::LetTilde(true, 8), D::DefTilde(false, 4)];
    const READ4: &str = "[\\the\\catcode`\\!,\\the\\catcode`\\?,\\the\\c,~]";
    let expect4 = |s: &S4| format!("[{},{},{},{}]", s.c1, s.c2, s.ch, s.t);
    let n = ops.len();
    let mut cases = 0u64;
    for len in 1..=5usize {
        let mut idx = vec![0usize; len];
        'hist: loop {
            let h: Vec<D> = idx.iter().map(|&i| ops[i]).collect();
            let mut ok = !(len == 5 && !(h[0] == D::Begin && h[1] == D::Begin));
            let mut depth = 0i32;
            for op in &h { if *op == D::Begin { depth += 1 } if *op == D::End { depth -= 1; if depth < 0 { ok = false } } }
            if ok {
                let (mut cur, mut saved) = (S4 { c1: 12, c2: 12, ch: 64, t: 1 }, vec![]);
                let mut src = String::from("\\catcode`\\~=13 \\def\\mg{7}\\def\\mh{8}\\catcode`\\!=12 \\catcode`\\?=12 \\chardef\\c=64 \\def~{1}");
                let mut want = String::new();
                for op in &h { apply4(&mut cur, &mut saved, *op); src.push_str(&tex(*op)); src.push_str(READ4); want.push_str(&expect4(&cur)); }
                while !saved.is_empty() { apply4(&mut cur, &mut saved, D::End); src.push('}'); src.push_str(READ4); want.push_str(&expect4(&cur)); }
                cases += 1;
                let got = run(&src);
                let good = matches!(&got, Some(Ok(out)) if out.split_whitespace().collect::<String>() == want);
                if !good {
                    let obs = match &got { None => "panic".to_string(), Some(Err(_)) => "error".to_string(), Some(Ok(o)) => o.split_whitespace().collect::<String>() };
                    println!("WITNESS {{\"fn\": \"run\", \"unit_fns\": [\"update_save_stack\", \"set\", \"restore\", \"insert\", \"end_group\"], \"history\": \"{}\", \"observed\": \"{}\", \"expected\": \"{}\"}}",
                        h.iter().map(|o| tex(*o)).collect::<String>().replace('\\', "\\\\").replace('"', "'"), obs.replace('"', "'").replace('\\', "/"), want);
                    return;
                }
            }
            let mut p = 0;
            loop { if p == len { break 'hist; } idx[p] += 1; if idx[p] < n { break; } idx[p] = 0; p += 1; }
        }
    }
    println!("STATS {{\"fn\": \"array elements / definitions\", \"cases\": {cases}}}");
}

// ---------------------------------------------------------------- the current font (its save stack is inlined in VM::run_impl)
/// every history of <= 6 steps over { {, }, three local font selectors, one \global font selector, a global register
/// assignment }: the font that is current when the input ends (after closing every open group) against the model
#[test]
fn font_scoping() {
    use texlang::{command, types};
    std::panic::set_hook(Box::new(|_| {}));
    #[derive(Clone, Copy, PartialEq, Debug)]
    enum F { Begin, End, Local(u32), Global(u32), Count }
    let ops = [F::Begin, F::End, F::Local(1), F::Local(3), F::Global(2), F::Count];
    let tex = |o: F| match o { F::Begin => "{".to_string(), F::End => "}".to_string(), F::Local(n) => format!("\\font{} ", ['Z', 'A', 'B', 'C'][n as usize]), F::Global(n) => format!("\\global\\font{} ", ['Z', 'A', 'B', 'C'][n as usize]), F::Count => "\\global\\count1=6 ".to_string() };
    let n = ops.len();
    let mut cases = 0u64;
    for len in 1..=6usize {
        let mut idx = vec![0usize; len];
        'hist: loop {
            let h: Vec<F> = idx.iter().map(|&i| ops[i]).collect();
            let mut depth = 0i32; let mut ok = true;
            for op in &h { if *op == F::Begin { depth += 1 } if *op == F::End { depth -= 1; if depth < 0 { ok = false } } }
            if ok {
                // model: the font per open level
                let (mut cur, mut saved): (u32, Vec<u32>) = (0, vec![]);
                for op in &h { match op { F::Begin => saved.push(cur), F::End => cur = saved.pop().unwrap(), F::Local(f) => cur = *f, F::Global(f) => { cur = *f; for s in saved.iter_mut() { *s = *f; } } F::Count => {} } }
                let mut src: String = h.iter().map(|o| tex(*o)).collect();
                while let Some(s) = saved.pop() { cur = s; src.push('}'); }
                let src = src.replace("\\\\", "\\");
                cases += 1;
                let s2 = src.clone();
                let got = std::panic::catch_unwind(move || {
                    let mut built_ins = crate::built_in_commands::<StdLibState>();
                    for (name, f) in [("fontZ", 0), ("fontA", 1), ("fontB", 2), ("fontC", 3)] { built_ins.insert(name, command::BuiltIn::new_font(types::Font(f))); }
                    let mut vm = vm::VM::<StdLibState>::new_with_built_in_commands(built_ins);
                    vm.push_source("input.tex", s2).unwrap();
                    crate::script::run_to_string(&mut vm).map(|_| vm.current_font().0).map_err(|e| format!("{e}"))
                });
                if !matches!(&got, Ok(Ok(f)) if *f as u32 == cur) {
                    println!("WITNESS {{\"fn\": \"run\", \"unit_fns\": [\"begin_group\", \"end_group\", \"run_impl\"], \"history\": \"{}\", \"observed\": \"{}\", \"expected\": \"current font {cur} at the end\"}}", src.replace('\\', "/"), format!("{:?}", got).replace('"', "'").replace('\\', "/").chars().take(160).collect::<String>());
                    return;
                }
            }
            let mut p = 0;
            loop { if p == len { break 'hist; } idx[p] += 1; if idx[p] < n { break; } idx[p] = 0; p += 1; }
        }
    }
    println!("STATS {{\"fn\": \"font_scoping\", \"cases\": {cases}}}");
}
