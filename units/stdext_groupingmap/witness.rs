// Witness driver for unit stdext_groupingmap (and the KMP matcher): exhaustive small domains against executable mirrors
// of the contracts.  Prints `WITNESS {json}` for the first failing input of each function.
use crate::collections::groupingmap::*;
use crate::algorithms::substringsearch::Matcher;
use crate::collections::nevec::Nevec;

/// the stack-of-snapshots model of the contract (DESIGN §4)
#[derive(Clone, PartialEq, Debug)]
struct Model { cur: std::collections::BTreeMap<u8, u8>, saved: Vec<std::collections::BTreeMap<u8, u8>> }

#[derive(Clone, Copy, Debug)]
enum Op { Local(u8, u8), Global(u8, u8), Begin, End }

fn apply_model(m: &mut Model, op: Op) {
    match op {
        Op::Local(k, v) => { m.cur.insert(k, v); }
        Op::Global(k, v) => { m.cur.insert(k, v); for s in m.saved.iter_mut() { s.insert(k, v); } }
        Op::Begin => m.saved.push(m.cur.clone()),
        Op::End => { if let Some(s) = m.saved.pop() { m.cur = s; } }
    }
}

fn visible<T: BackingContainerProbe>(g: &T) -> std::collections::BTreeMap<u8, u8> { g.probe() }
trait BackingContainerProbe { fn probe(&self) -> std::collections::BTreeMap<u8, u8>; }
impl BackingContainerProbe for GroupingHashMap<u8, u8> {
    fn probe(&self) -> std::collections::BTreeMap<u8, u8> { (0u8..3).filter_map(|k| self.get(&k).map(|v| (k, *v))).collect() }
}
impl BackingContainerProbe for GroupingVec<u8> {
    fn probe(&self) -> std::collections::BTreeMap<u8, u8> { (0u8..3).filter_map(|k| self.get(&(k as usize)).map(|v| (k, *v))).collect() }
}

fn run_history(ops: &[Op], vec_backed: bool) -> Option<String> {
    let mut model = Model { cur: Default::default(), saved: vec![] };
    let mut hm: GroupingHashMap<u8, u8> = Default::default();
    let mut gv: GroupingVec<u8> = Default::default();
    for (i, op) in ops.iter().enumerate() {
        let existed = match op { Op::Local(k, _) | Op::Global(k, _) => model.cur.contains_key(k), _ => false };
        let depth_before = model.saved.len();
        apply_model(&mut model, *op);
        let (r1, r2) = match *op {
            Op::Local(k, v) => (Some(hm.insert(k, v, Scope::Local)), Some(gv.insert(k as usize, v, Scope::Local))),
            Op::Global(k, v) => (Some(hm.insert(k, v, Scope::Global)), Some(gv.insert(k as usize, v, Scope::Global))),
            Op::Begin => { hm.begin_group(); gv.begin_group(); (None, None) }
            Op::End => {
                let (a, b) = (hm.end_group(), gv.end_group());
                if a.is_err() != (depth_before == 0) || b.is_err() != (depth_before == 0) { return Some(format!("end_group error status wrong at step {i}")); }
                (None, None)
            }
        };
        if let Some(r) = if vec_backed { r2 } else { r1 } { if r != existed { return Some(format!("insert returned {r} but key existed = {existed} at step {i}")); } }
        let vis = if vec_backed { visible(&gv) } else { visible(&hm) };
        if vis != model.cur { return Some(format!("visible map {vis:?} != model {:?} after step {i}", model.cur)); }
    }
    // close every open group: each snapshot must come back
    while let Some(s) = model.saved.pop() {
        model.cur = s;
        if vec_backed { let _ = gv.end_group(); } else { let _ = hm.end_group(); }
        let vis = if vec_backed { visible(&gv) } else { visible(&hm) };
        if vis != model.cur { return Some(format!("after closing a group visible map {vis:?} != snapshot {:?}", model.cur)); }
    }
    None
}

fn all_ops() -> Vec<Op> {
    let mut v = vec![Op::Begin, Op::End];
    for k in 0..2u8 { for val in 1..3u8 { v.push(Op::Local(k, val)); v.push(Op::Global(k, val)); } }
    v
}

#[test]
fn groupingmap_histories() {
    // every history of length <= 6 over 2 keys x 2 values (10^6 histories), both backing containers
    let ops = all_ops();
    let n = ops.len();
    for len in 1..=6usize {
        let mut idx = vec![0usize; len];
        loop {
            let h: Vec<Op> = idx.iter().map(|&i| ops[i]).collect();
            for vec_backed in [false, true] {
                if let Some(why) = run_history(&h, vec_backed) {
                    println!("WITNESS {{\"fn\": \"insert\", \"unit_fns\": [\"insert\", \"end_group\", \"begin_group\"], \"history\": \"{:?}\", \"backing\": \"{}\", \"observed\": \"{}\"}}",
                        h, if vec_backed { "Vec" } else { "HashMap" }, why.replace('"', "'"));
                    return;
                }
            }
            let mut p = 0;
            loop { if p == len { break; } idx[p] += 1; if idx[p] < n { break; } idx[p] = 0; p += 1; }
            if p == len { break; }
        }
    }
}

#[test]
fn kmp_matches() {
    // every pattern of length 1..=5 and text of length <= 10 over a 2-letter alphabet, patterns to length 4 over 3 letters
    for (alpha, max_p, max_t) in [(2u8, 6usize, 11usize), (3u8, 4usize, 8usize)] {
        for plen in 1..=max_p {
            let mut pat = vec![0u8; plen];
            loop {
                let matcher = Matcher::new(Nevec::new_with_tail(pat[0], pat[1..].to_vec()));
                for tlen in 0..=max_t {
                    let mut text = vec![0u8; tlen];
                    loop {
                        let mut search = matcher.start();
                        for i in 0..tlen {
                            let got = search.next(&text[i]);
                            let want = i + 1 >= plen && text[i + 1 - plen..=i] == pat[..];
                            if got != want {
                                println!("WITNESS {{\"fn\": \"next\", \"unit_fns\": [\"next\", \"new\"], \"pattern\": {:?}, \"text\": {:?}, \"position\": {}, \"observed\": {}, \"expected\": {}}}", pat, text, i, got, want);
                                return;
                            }
                        }
                        let mut p = 0;
                        loop { if p == tlen { break; } text[p] += 1; if text[p] < alpha { break; } text[p] = 0; p += 1; }
                        if p == tlen { break; }
                    }
                }
                let mut p = 0;
                loop { if p == plen { break; } pat[p] += 1; if pat[p] < alpha { break; } pat[p] = 0; p += 1; }
                if p == plen { break; }
            }
        }
    }
}

// ---------------------------------------------------------------- C20: replaying the full iteration rebuilds the map
/// the map rebuilt from iter_all() has the same visible values and behaves the same under every continuation of length
/// <= 2 followed by closing every group (checked against the model of the ORIGINAL, so both the original and the
/// rebuilt map are compared with the same oracle)
#[test]
fn iter_all_replay() {
    let ops = all_ops();
    let n = ops.len();
    let conts: Vec<Vec<Op>> = {
        let mut c: Vec<Vec<Op>> = vec![vec![]];
        for a in &ops { c.push(vec![*a]); for b in &ops { c.push(vec![*a, *b]); } }
        c
    };
    for len in 0..=4usize {
        let mut idx = vec![0usize; len];
        loop {
            let h: Vec<Op> = idx.iter().map(|&i| ops[i]).collect();
            // build the original and its model
            let mut model = Model { cur: Default::default(), saved: vec![] };
            let mut hm: GroupingHashMap<u8, u8> = Default::default();
            for op in &h {
                apply_model(&mut model, *op);
                match *op {
                    Op::Local(k, v) => { hm.insert(k, v, Scope::Local); }
                    Op::Global(k, v) => { hm.insert(k, v, Scope::Global); }
                    Op::Begin => hm.begin_group(),
                    Op::End => { let _ = hm.end_group(); }
                }
            }
            for cont in &conts {
                let mut rebuilt: GroupingHashMap<u8, u8> = hm.iter_all().map(Item::adapt_map(|(k, v): (u8, &u8)| (k, *v))).collect();
                let mut m = model.clone();
                let mut why: Option<String> = None;
                if visible(&rebuilt) != m.cur { why = Some(format!("rebuilt visible map {:?} != {:?}", visible(&rebuilt), m.cur)); }
                for op in cont {
                    if why.is_some() { break; }
                    let depth = m.saved.len();
                    apply_model(&mut m, *op);
                    match *op {
                        Op::Local(k, v) => { rebuilt.insert(k, v, Scope::Local); }
                        Op::Global(k, v) => { rebuilt.insert(k, v, Scope::Global); }
                        Op::Begin => rebuilt.begin_group(),
                        Op::End => { if rebuilt.end_group().is_err() != (depth == 0) { why = Some("end_group error status differs after replay".into()); } }
                    }
                    if why.is_none() && visible(&rebuilt) != m.cur { why = Some(format!("after {:?} the rebuilt map shows {:?}, the original would show {:?}", op, visible(&rebuilt), m.cur)); }
                }
                while why.is_none() {
                    let Some(s) = m.saved.pop() else { break };
                    m.cur = s;
                    if rebuilt.end_group().is_err() { why = Some("the rebuilt map has fewer open groups".into()); break; }
                    if visible(&rebuilt) != m.cur { why = Some(format!("closing a group of the rebuilt map shows {:?}, the original would show {:?}", visible(&rebuilt), m.cur)); }
                }
                if why.is_none() && rebuilt.end_group().is_ok() { why = Some("the rebuilt map has more open groups".into()); }
                if let Some(w) = why {
                    println!("WITNESS {{\"fn\": \"iter_all\", \"unit_fns\": [\"iter_all\", \"from_iter\", \"insert\", \"end_group\"], \"history\": \"{:?}\", \"continuation\": \"{:?}\", \"observed\": \"{}\"}}", h, cont, w.replace('"', "'"));
                    return;
                }
            }
            let mut p = 0;
            loop { if p == len { break; } idx[p] += 1; if idx[p] < n { break; } idx[p] = 0; p += 1; }
            if p == len { break; }
        }
    }
}

// ---------------------------------------------------------------- C20: the interner when ALL hashes collide
#[derive(Default, Clone)]
struct ConstHasher;
impl std::hash::Hasher for ConstHasher { fn finish(&self) -> u64 { 42 } fn write(&mut self, _: &[u8]) {} }
#[test]
fn interner_under_total_collision() {
    use crate::collections::interner::Interner;
    let words: Vec<String> = {
        let mut w = vec![String::new()];
        for a in ["a", "b", "ab", "é", " "] { w.push(a.to_string()); for b in ["a", "b", ""] { w.push(format!("{a}{b}")); w.push(format!("{b}{a}{a}")); } }
        w
    };
    // every ordering prefix: intern the words in several rotations, duplicates included
    for rot in 0..words.len() {
        let mut interner: Interner<std::num::NonZeroU32, std::hash::BuildHasherDefault<ConstHasher>> = Default::default();
        let mut keys: Vec<(String, std::num::NonZeroU32)> = vec![];
        for i in 0..2 * words.len() {
            let w = &words[(i + rot) % words.len()];
            let k = interner.get_or_intern(w);
            for (w2, k2) in &keys {
                if (w2 == w) != (*k2 == k) {
                    println!("WITNESS {{\"fn\": \"get_or_intern\", \"unit_fns\": [\"get_or_intern\", \"get\", \"resolve\"], \"words\": \"{:?} vs {:?}\", \"observed\": \"keys {:?} and {:?}\", \"expected\": \"equal keys exactly for equal strings\"}}", w2, w, k2, k);
                    return;
                }
            }
            keys.push((w.clone(), k));
            for (w2, k2) in &keys {
                if interner.resolve(*k2) != Some(w2.as_str()) || interner.get(w2) != Some(*k2) {
                    println!("WITNESS {{\"fn\": \"resolve\", \"unit_fns\": [\"get_or_intern\", \"get\", \"resolve\"], \"words\": \"{:?}\", \"observed\": \"resolve -> {:?}, get -> {:?}\", \"expected\": \"every key resolves to its string\"}}", w2, interner.resolve(*k2), interner.get(w2));
                    return;
                }
            }
        }
        if interner.get("never interned").is_some() {
            println!("WITNESS {{\"fn\": \"get\", \"unit_fns\": [\"get\"], \"words\": \"never interned\", \"observed\": \"a key\", \"expected\": \"None\"}}");
            return;
        }
    }
    // every word interned TWICE IN A ROW from the very first call on (the empty string first, too), under the colliding hasher
    // and under the standard one: equal strings get equal keys, different strings different keys, keys count up from 1
    fn immediate_duplicates<H: std::hash::BuildHasher + Default>(words: &[String], hasher_name: &str) -> bool {
        use crate::collections::interner::Interner;
        for rot in 0..words.len() {
            let mut interner: Interner<std::num::NonZeroU32, H> = Default::default();
            let mut keys: Vec<(String, std::num::NonZeroU32)> = vec![];
            for i in 0..words.len() {
                let w = &words[(i + rot) % words.len()];
                for _ in 0..3 {
                    let k = interner.get_or_intern(w);
                    if keys.iter().any(|(w2, k2)| (w2 == w) != (*k2 == k)) || (!keys.iter().any(|(w2, _)| w2 == w) && k.get() as usize != keys.len() + 1) {
                        println!("WITNESS {{\"fn\": \"get_or_intern\", \"unit_fns\": [\"get_or_intern\"], \"words\": \"{:?} as word number {} ({hasher_name} hasher, first word {:?})\", \"observed\": \"key {:?}; keys so far {:?}\", \"expected\": \"the key it already has, or the next unused key\"}}", w, i + 1, words[rot], k, keys.iter().map(|x| x.1.get()).collect::<Vec<_>>());
                        return false;
                    }
                    if !keys.iter().any(|(w2, _)| w2 == w) { keys.push((w.clone(), k)); }
                    if interner.resolve(k) != Some(w.as_str()) { println!("WITNESS {{\"fn\": \"resolve\", \"unit_fns\": [\"get_or_intern\", \"resolve\"], \"words\": \"{:?}\", \"observed\": \"{:?}\", \"expected\": \"the string\"}}", w, interner.resolve(k)); return false; }
                }
            }
        }
        true
    }
    if !immediate_duplicates::<std::hash::BuildHasherDefault<ConstHasher>>(&words, "constant") { return; }
    if !immediate_duplicates::<std::collections::hash_map::RandomState>(&words, "standard") { return; }
}
