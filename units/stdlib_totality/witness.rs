// Bounded stand-in for interpreter totality at the numeric limits (property C09, and the arithmetic clauses of C06):
// programs built from a grid of extreme register values (reached through \advance wrap-around, as no literal can
// express them) x the contexts in which a number / dimension / glue is scanned or computed are run in the real VM
// with the full standard library.  Every run must end in Ok or a structured error - never a panic.  For \advance,
// \multiply, \divide on \count the result is compared with TeX's integer algorithms over i128.
use crate::StdLibState;
use texlang::vm;

fn run(source: &str) -> Option<Result<String, String>> {
    let src = source.to_string();
    std::panic::catch_unwind(move || {
        let mut vm = vm::VM::<StdLibState>::new();
        vm.push_source("input.tex", src).unwrap();
        crate::script::run_to_string(&mut vm).map_err(|err| format!("{err}"))
    }).ok()
}

/// TeX source that leaves `v` in \count1 (by wrap-around where no literal exists)
fn set_count(v: i64) -> String {
    if v == i32::MIN as i64 { r"\count1=-2147483647 \advance\count1 by -1 ".into() } else { format!(r"\count1={v} ") }
}
/// \dimen1 holding exactly `v` sp, also beyond +-max_dimen (through \advance, which wraps)
fn set_dimen(v: i64) -> String {
    let max = (1i64 << 30) - 1;
    if v.abs() <= max { return format!(r"\dimen1={v}sp "); }
    let mut s = format!(r"\dimen1={}sp ", if v > 0 { max } else { -max });
    let mut rest = v - if v > 0 { max } else { -max };
    while rest != 0 { let step = rest.clamp(-max, max); s.push_str(&format!(r"\advance\dimen1 by {step}sp ")); rest -= step; }
    s
}

#[test]
fn scanning_extreme_values_never_panics() {
    std::panic::set_hook(Box::new(|_| {}));
    let counts: [i64; 9] = [i32::MIN as i64, -2147483647, -1073741824, -1073741823, 0, 1073741823, 1073741824, 2147483646, 2147483647];
    let dimens: [i64; 7] = [i32::MIN as i64, -2147483647, -1073741824, 0, 1073741823, 1073741824, 2147483647];
    let count_uses = [
        r"\count2=\count1 ", r"\count2=-\count1 ", r"\count2=--\count1 ", r"\dimen2=\count1 sp ", r"\dimen2=-\count1 sp ", r"\dimen2=\count1 pt ", r"\dimen2=-\count1 pt ",
        r"\dimen2=0.5\count1 ", r"\dimen2=0.99999\count1 ", r"\dimen2=-0.99999\count1 ", r"\dimen2=1.5\count1 ", r"\skip2=\count1 sp plus \count1 sp ", r"\skip2=-\count1 sp ",
        r"\ifnum\count1<0 a\else b\fi ", r"\ifnum-\count1<0 a\else b\fi ", r"\ifodd\count1 a\else b\fi ", r"\ifcase\count1 a\or b\else c\fi ",
        r"\multiply\count1 by 2 ", r"\multiply\count1 by -1 ", r"\divide\count1 by -1 ", r"\divide\count1 by 0 ", r"\advance\count1 by \count1 ", r"\the\count1 ",
        r"\dimen2=1pt \multiply\dimen2 by \count1 ", r"\dimen2=1pt \divide\dimen2 by \count1 ", r"\skip2=1pt plus 1fil \multiply\skip2 by \count1 ",
    ];
    let dimen_uses = [
        r"\dimen2=\dimen1 ", r"\dimen2=-\dimen1 ", r"\dimen2=0.5\dimen1 ", r"\dimen2=0.99999\dimen1 ", r"\dimen2=-0.99999\dimen1 ", r"\dimen2=2\dimen1 ", r"\dimen2=-2\dimen1 ",
        r"\count2=\dimen1 ", r"\count2=-\dimen1 ", r"\skip2=\dimen1 plus \dimen1 minus \dimen1 ", r"\skip2=-\dimen1 ", r"\multiply\dimen1 by 2 ", r"\multiply\dimen1 by -1 ",
        r"\divide\dimen1 by -1 ", r"\advance\dimen1 by \dimen1 ", r"\the\dimen1 ", r"\skip2=\dimen1 \advance\skip2 by \skip2 \advance\skip2 by \skip2 \the\skip2 ",
        r"\skip2=0pt plus \dimen1 \advance\skip2 by \skip2 \advance\skip2 by \skip2 ", r"\skip2=\dimen1 \multiply\skip2 by -1 ", r"\skip2=\dimen1 \divide\skip2 by -1 ",
    ];
    for c in counts { for u in count_uses {
        let src = format!("{}{}", set_count(c), u);
        if run(&src).is_none() { println!("WITNESS {{\"fn\": \"run\", \"source\": \"{}\", \"observed\": \"panic\", \"expected\": \"success or a structured error\"}}", src.replace('\\', "\\\\")); return; }
    } }
    for d in dimens { for u in dimen_uses {
        let src = format!("{}{}", set_dimen(d), u);
        if run(&src).is_none() { println!("WITNESS {{\"fn\": \"run\", \"source\": \"{}\", \"observed\": \"panic\", \"expected\": \"success or a structured error\"}}", src.replace('\\', "\\\\")); return; }
    } }
}

/// \advance wraps silently; \multiply errors (and leaves the register) iff |x*n| > 2^31-1; \divide truncates toward zero
/// and errors on division by zero
#[test]
fn count_arithmetic_matches_tex() {
    std::panic::set_hook(Box::new(|_| {}));
    let vals: [i64; 11] = [i32::MIN as i64, -2147483647, -65536, -3, -1, 0, 1, 2, 7, 65536, 2147483647];
    let mut failures = 0;
    for a in vals { for b in vals {
        if b == i32::MIN as i64 { continue; } // cannot be written as an operand literal
        for (op, name) in [("advance", "Advance"), ("multiply", "Multiply"), ("divide", "Divide")] {
            let src = format!(r"{}\{op}\count1 by {b} \the\count1", set_count(a));
            let want: Result<i64, ()> = match op {
                "advance" => Ok((((a + b) as i128 + (1i128 << 31)).rem_euclid(1i128 << 32) - (1i128 << 31)) as i64),
                "multiply" => { let p = a as i128 * b as i128; if p.abs() > i32::MAX as i128 { Err(()) } else { Ok(p as i64) } }
                // (the quotient 2^31 of -2^31 / -1 is not representable: an error, as for any overflow)
                _ => { if b == 0 || (a as i128 / b as i128) > i32::MAX as i128 { Err(()) } else { Ok((a as i128 / b as i128) as i64) } }
            };
            let got = run(&src);
            let ok = match (&got, &want) {
                (Some(Ok(out)), Ok(w)) => out.trim() == format!("{w}"),
                (Some(Err(_)), Err(())) => true,
                _ => false,
            };
            if !ok {
                let obs = match &got { None => "panic".to_string(), Some(Ok(o)) => format!("prints {}", o.trim()), Some(Err(_)) => "reports an error".to_string() };
                println!("WITNESS {{\"fn\": \"{}\", \"unit_fns\": [\"apply\"], \"a\": {a}, \"b\": {b}, \"op\": \"{op}\", \"observed\": \"{obs}\", \"expected\": \"{}\"}}",
                    if got.is_none() { "run" } else { "apply" }, match want { Ok(w) => format!("{w}"), Err(()) => "an arithmetic error, register unchanged".to_string() });
                failures += 1;
                if failures >= 12 { return; }
            }
        }
    } }
}

/// \advance on glue: TeX.2021.1239 - widths add; a component of the increment with a zero value counts as finite; equal
/// orders add; a HIGHER order of the old value wins only if its value is non-zero; otherwise the increment's component stays
#[test]
fn glue_advance_matches_tex() {
    std::panic::set_hook(Box::new(|_| {}));
    // (value in pt, order) of one stretch / shrink component
    let comps: [(i64, usize); 7] = [(0, 0), (2, 0), (-2, 0), (0, 1), (3, 1), (0, 2), (5, 3)];
    let unit = |o: usize| ["pt", "fil", "fill", "filll"][o];
    let show = |v: i64, o: usize| format!("{v}.0{}", unit(o));
    let mut failures = 0;
    for old in comps { for inc in comps { for which in ["plus", "minus"] {
        let src = format!(r"\skip1=1pt {which} {}{} \advance\skip1 by 2pt {which} {}{}\relax \the\skip1", old.0, unit(old.1), inc.0, unit(inc.1));
        // q = increment, r = old value
        let (mut qv, mut qo) = inc;
        if qv == 0 { qo = 0; }
        if qo == old.1 { qv += old.0; } else if qo < old.1 && old.0 != 0 { qv = old.0; qo = old.1; }
        let want = if qv == 0 { "3.0pt".to_string() } else { format!("3.0pt {which} {}", show(qv, qo)) };
        let got = run(&src);
        if !matches!(&got, Some(Ok(out)) if out.trim() == want) {
            let obs = match &got { None => "panic".to_string(), Some(Ok(o)) => format!("prints {}", o.trim()), Some(Err(_)) => "reports an error".to_string() };
            println!("WITNESS {{\"fn\": \"{}\", \"unit_fns\": [\"apply\", \"wrapping_add\"], \"source\": \"{}\", \"observed\": \"{obs}\", \"expected\": \"{want} (TeX.2021.1239)\"}}", if got.is_none() { "run" } else { "wrapping_add" }, src.replace('\\', "\\\\"));
            failures += 1;
            if failures >= 6 { return; }
        }
    } } }
}

/// C09: inputs the property text names - \the applied to a non-variable, and errors on lines holding non-ASCII text
/// (the error is rendered to text: the rendering must not panic either)
#[test]
fn named_inputs_never_panic() {
    std::panic::set_hook(Box::new(|info| { println!("PANICLOC {}", info.to_string().replace('\n', " ")); }));
    let srcs = [
        r"\the\relax", r"\the", r"\the a", r"\the\the", r"\the\def", r"\the{", r"\the}",
        "é\\undefinedcommand", "ééé \\count1=x", "日本語 \\the\\relax", "x\u{301}\\undefinedcommand é", "\\def\\a#1.{}\\a é",
        "é}", "{é", "\\catcode`é=1 é", "\u{10FFFF}\\undefinedcommand", "\\count300000=1 é", "é\n\n\\undefinedcommand é\n",
        "\u{feff}\\undefinedcommand", "\t\\undefinedcommand\té", "\\input é", "\\csname é\\endcsname \\undefinedcommand",
        // the input ends inside a construct, after lines that hold multi-byte characters
        // the ^^ notation at the end of a line / of the input, with and without an end-of-line character appended
        "\\endlinechar=-1 \nA^^\nB", "A^^", "A^^\n", "^^", "^^4", "^^4\n", "^^é", "^^M^^", "\\endlinechar=-1 \n^^4", "\\endlinechar=300 \n^^", "\\^^", "\\a^^\n", "\\endlinechar=-1 \n\\^^", "\\endlinechar=-1 \n^^^", "^^^^", "^^\u{7f}",
        // the OFFENDING token itself is non-ASCII (the error is rendered with that token highlighted)
        "\\count 0=é", "\\catcode`é=é", "\\ifnum é", "\\dimen0=é", "\\skip0=1pt plus é", "\\def\\a#é{}", "\\countdef é", "é\\count0=日本", "\\count0=\u{301}", "\\count0=1é\\count0=é", "\\read 3 to é", "\\let é", "\\the é", "\\advance é",
        // a control sequence with an EMPTY name (a backslash at the very end of a line that gets no end-of-line character)
        "\\endlinechar=-1\n\\count 1=`\\\n\\the\\count 1", "\\count1=`\\", "\\endlinechar=-1\n\\\n\\relax", "\\endlinechar=-1\n\\def\\\n{x}\\\n", "\\endlinechar=-1\n\\let\\\n=\\relax\\the\\\n",
        // allocation: an alias of an array, arrays of length 0, elements far out of range, \\newInt inside a group
        "\\newIntArray \\a 3 \\let\\b=\\a \\b 0=1", "\\newIntArray \\a 0 \\a 0 = 1", "\\newIntArray \\a -3 \\a 0 = 1", "\\newIntArray \\a 3 \\a 3=1", "\\newIntArray \\a 3 \\a 2147483647=1", "\\newIntArray \\a 3 \\a -1=1",
        "{\\newInt\\n \\n=3 }\\n=4 \\the\\n", "\\newIntArray \\a 2 {\\newIntArray \\a 5 \\a 4=1 }\\a 4=1", "\\newInt\\n \\let\\m=\\n \\m=3 \\the\\n", "\\newIntArray 3", "\\newIntArray \\a", "\\newIntArray \\a \\a",
        "éé\n\\count", "% ☕\n\\def\\a{", "é\n\n日本\n\\toks 0 = {unclosed", "ééé\n   \n\\advance", "☕☕☕\n\\ifcase 3 é", "é\\def\\a#1.{}\n\\a é",
    ];
    // every interaction mode, so that every recovery path runs (C09: "in any interaction mode")
    for mode in ["", "\\errorstopmode ", "\\scrollmode ", "\\nonstopmode ", "\\batchmode "] {
    for src in srcs.iter().copied().chain(["\\count1=x \\count2=y \\dimen1=1xx \\undefinedcommand \\the\\relax \\fi \\else }", "\\multiply\\count1 by 2147483647 \\count1=1 \\multiply\\count1 by 2147483647 \\multiply\\count1 by 2 \\divide\\count1 by 0 \\dimen1=16384pt \\catcode 55296=1 \\count70000=1 "]) {
        let src_owned = format!("{mode}{src}");
        let shown = src_owned.clone();
        let r = std::panic::catch_unwind(move || {
            let mut vm = vm::VM::<StdLibState>::new();
            vm.push_source("input.tex", src_owned).unwrap();
            match crate::script::run_to_string(&mut vm) { Ok(s) => s, Err(err) => format!("{err}") }
        });
        if r.is_err() {
            println!("WITNESS {{\"fn\": \"run\", \"source\": \"{}\", \"observed\": \"panic\", \"expected\": \"success or a structured error that renders to text\"}}", shown.escape_default().to_string().replace('"', "'").replace('\\', "/"));
        }
    }
    }
}

/// C09: "for every token sequence over the full vocabulary of installed primitives ... truncated at any point":
/// every primitive followed by every argument shape from a fixed list (and every pair of primitives), in batch mode so
/// that every recovery path runs to the end. Excluded: \sleep, \dumpFormat, \dumpValidate (side effects on the host).
#[test]
fn primitive_grid_never_panics() {
    std::panic::set_hook(Box::new(|info| { println!("PANICLOC {}", info.to_string().replace('\n', " ").chars().take(240).collect::<String>()); }));
    let prims = ["advance", "batchmode", "catcode", "closein", "chardef", "count", "countdef", "day", "def", "dimen", "divide", "else", "endinput",
        "endlinechar", "errorstopmode", "expandafter", "fi", "gdef", "global", "globaldefs", "ifcase", "ifeof", "iffalse", "ifnum", "ifodd", "iftrue",
        "input", "jobname", "let", "long", "mathchardef", "mathcode", "month", "multiply", "newInt", "newIntArray", "noexpand", "nonstopmode", "or", "openin",
        "outer", "read", "relax", "scrollmode", "skip", "the", "time", "toks", "toksdef", "tracingmacros", "year"];
    let shapes = ["", " ", "1", "-1", "{", "}", "x", "\\relax", "\\count1", "=1", "\\undefinedcs", "#", "~", "2147483647 ", "-2147483647 ", "{a}{b}", "\\par",
        "1=1", "1 1", "\\a", "\\a=1", "\\a\\a", "16=x", "255 ", "256 ", "32768 ", "-1=\\a", "1 to\\a", "\\a{#1}", "\\a#1#2{#2#1}", "\\a#1#1{}", "\\a#2{}",
        "\\a#1{#2}", "\\a{", "\\a}", "`", "`\\", "\"G", "'9", "1pt", "1pt plus", "1pt plus 1fil minus", "1.", ".", "--", "1true", "\\the", "\\the\\count", "é", "\u{10ffff}",
        "3 to 7", "3 to", "3 to{", "15 to\\a", "16 to\\a", "17 to\\a", "2147483647 to\\a", "-1 to\\a", "\\noexpand\\a", "\\noexpand\\the", "\\noexpand\\iftrue", "\\expandafter\\noexpand\\a"];
    let mut n = 0u64;
    let mut failures = 0;
    let mut try_src = |src: String| -> bool {
        let s2 = src.clone();
        let r = std::panic::catch_unwind(move || {
            let mut vm = vm::VM::<StdLibState>::new();
            vm.push_source("input.tex", s2).unwrap();
            match crate::script::run_to_string(&mut vm) { Ok(s) => s, Err(err) => format!("{err}") }
        });
        if r.is_err() {
            println!("WITNESS {{\"fn\": \"run\", \"source\": \"{}\", \"observed\": \"panic\", \"expected\": \"success or a structured error that renders to text\"}}", src.escape_default().to_string().replace('"', "'").replace('\\', "/"));
            return false;
        }
        true
    };
    for p in prims { for s in shapes { for mode in ["\\batchmode ", ""] {
        n += 1;
        if !try_src(format!("{mode}\\def\\a{{z}}\\{p} {s}")) { failures += 1; if failures >= 12 { return; } }
    } } }
    for p in prims { for q in prims {
        n += 1;
        if !try_src(format!("\\batchmode \\{p}\\{q} 1 ")) { failures += 1; if failures >= 12 { return; } }
        if !try_src(format!("\\batchmode \\{p} 1\\{q}")) { failures += 1; if failures >= 12 { return; } }
    } }
    // a primitive, then \\noexpand or \\expandafter, then a primitive or a macro: tokens that reach a primitive unexpanded
    for p in prims { for mid in ["noexpand", "expandafter"] { for q in prims.iter().copied().chain(["a", "undefinedcs"]) {
        n += 1;
        if !try_src(format!("\\batchmode \\def\\a{{z}}\\{p}\\{mid}\\{q} 1 ")) { failures += 1; if failures >= 12 { return; } }
    } } }
    println!("STATS {{\"driver\": \"primitive grid\", \"programs\": {n}}}");
}

/// C09: pseudo-random token soups over the whole vocabulary (deterministic generator; macro bodies cannot call macros,
/// so every program terminates), in batch mode
#[test]
fn token_soup_never_panics() {
    std::panic::set_hook(Box::new(|info| { println!("PANICLOC {}", info.to_string().replace('\n', " ").chars().take(240).collect::<String>()); }));
    let thorough = std::env::var("VERIF_TIER").map(|t| t == "thorough").unwrap_or(false);
    let vocab = ["\\advance", "\\catcode", "\\chardef", "\\count", "\\countdef", "\\dimen", "\\divide", "\\else", "\\endlinechar", "\\expandafter", "\\fi",
        "\\global", "\\globaldefs", "\\ifcase", "\\iffalse", "\\ifnum", "\\ifodd", "\\iftrue", "\\let", "\\long", "\\mathchardef", "\\mathcode", "\\multiply",
        "\\noexpand", "\\or", "\\outer", "\\relax", "\\skip", "\\the", "\\toks", "\\toksdef", "\\year", "\\a", "\\b", "\\c", "\\undefinedcs",
        "{", "}", "{", "}", " ", "=", "-", "1", "2", "9", "0", "255", "-2147483647", "2147483647", "x", "y", "pt", "fil", "plus", "minus", "by", "to", ".", "#", "#1", "~", "`", "'", "\"", "<", ">", "é",
        // input-level vocabulary: line ends, the ^^ notation, \\read / \\input / \\openin, more non-ASCII
        "\n", "\n", "^^", "^^M", "^^4", "^^é", "\\read", "\\openin", "\\closein", "\\ifeof", "\\input", "\\endinput", "\\jobname", "\\def", "\\gdef", "3", "16", "日", "\u{301}", "\\endlinechar=-1 ", "%"];
    let mut state: u64 = 0x243F6A8885A308D3;
    let mut next = move || { state ^= state << 13; state ^= state >> 7; state ^= state << 17; state };
    let n_programs = if thorough { 120_000 } else { 15_000 };
    let mut failures = 0;
    for _ in 0..n_programs {
        let len = 1 + (next() % 10) as usize;
        // (the interaction mode changes per program: in scroll / nonstop / batch mode errors are rendered inside the run)
        let mut src = String::from(["\\batchmode ", "\\scrollmode ", "\\nonstopmode ", ""][(next() % 4) as usize]);
        src.push_str("\\def\\a#1{(#1)}\\def\\b{z}\\def\\c#1.#2{#2#1}");
        for _ in 0..len { src.push_str(vocab[(next() % vocab.len() as u64) as usize]); if next() % 3 == 0 { src.push(' '); } }
        let s2 = src.clone();
        let r = std::panic::catch_unwind(move || {
            let mut vm = vm::VM::<StdLibState>::new();
            vm.push_source("input.tex", s2).unwrap();
            match crate::script::run_to_string(&mut vm) { Ok(s) => s, Err(err) => format!("{err}") }
        });
        if r.is_err() {
            println!("WITNESS {{\"fn\": \"run\", \"source\": \"{}\", \"observed\": \"panic\", \"expected\": \"success or a structured error that renders to text\"}}", src.escape_default().to_string().replace('"', "'").replace('\\', "/"));
            failures += 1; if failures >= 10 { return; }
        }
    }
    println!("STATS {{\"driver\": \"token soup\", \"programs\": {n_programs}}}");
}

/// TeX.2021.442: an alphabetic constant is ` followed by a character token or by a control sequence whose name is a single
/// character - read WITHOUT expansion, whatever that control sequence means
#[test]
fn alphabetic_constants() {
    std::panic::set_hook(Box::new(|_| {}));
    // (\\relax after the constant: the optional space after a number is looked for WITH expansion, TeX.2021.443, so a \\the
    //  right behind it would be expanded before the assignment is done - in TeX too)
    for (src, want) in [
        ("\\count1=`a\\relax \\the\\count1", "97"), ("\\count1=`\\a\\relax \\the\\count1", "97"), ("\\count1=`\\% \\the\\count1", "37"), ("\\count1=`\\{\\relax \\the\\count1", "123"),
        // the control sequence is a MACRO, a primitive, undefined: still its name's character
        ("\\def\\a{b}\\count1=`\\a\\relax \\the\\count1", "97"), ("\\def\\a{\\count2=5 }\\count1=`\\a\\relax \\the\\count1", "97"), ("\\let\\a=\\relax \\count1=`\\a\\relax \\the\\count1", "97"),
        ("\\def\\a{}\\count1=`\\a\\relax \\the\\count1", "97"), ("\\count1=`\\z\\relax \\the\\count1", "122"),
        // an active character, a following digit is NOT part of the number
        ("\\catcode`\\~=13 \\def~{x}\\count1=`~\\relax \\the\\count1", "126"), ("\\count1=`a1\\the\\count1", "197"), ("\\count1=-`a\\relax \\the\\count1", "-97"),
    ] {
        let s2 = src.to_string();
        let got = std::panic::catch_unwind(move || {
            let mut vm = vm::VM::<StdLibState>::new();
            vm.push_source("input.tex", s2).unwrap();
            crate::script::run_to_string(&mut vm).map_err(|e| format!("{e}"))
        });
        let ok = matches!(&got, Ok(Ok(out)) if out.split_whitespace().collect::<String>() == want);
        if !ok {
            let obs = match &got { Err(_) => "panic".to_string(), Ok(Err(_)) => "error".to_string(), Ok(Ok(o)) => o.split_whitespace().collect::<String>() };
            println!("WITNESS {{\"fn\": \"{}\", \"unit_fns\": [\"parse_character\", \"parse_integer\"], \"source\": \"{}\", \"observed\": \"{}\", \"expected\": \"{want} (TeX.2021.442)\"}}", if got.is_err() { "run" } else { "parse_character" }, src.replace('\\', "\\\\"), obs.replace('"', "'").replace('\\', "/"));
        }
    }
}

/// TeX.2021.103 print_scaled
fn print_scaled_tex(v: i64) -> String {
    let mut out = String::new();
    let mut s = v;
    if s < 0 { out.push('-'); s = -s; }
    out.push_str(&format!("{}.", s / 65536));
    s = 10 * (s % 65536) + 5;
    let mut delta = 10;
    loop {
        if delta > 65536 { s = s + 32768 - 50000; }
        out.push((b'0' + (s / 65536) as u8) as char);
        s = 10 * (s % 65536);
        delta *= 10;
        if s <= delta { break; }
    }
    out
}
/// TeX.2021.107 xn_over_d with d = 2^16 applied to a signed x (the sign is put back on the result)
fn frac_of(x: i64, f: i64) -> i64 { let m = (x.abs() as i128 * f as i128 / 65536) as i64; if x < 0 { -m } else { m } }

/// C06 "coercions between integer, dimension and glue": internal quantities (registers, \chardef / \mathchardef names,
/// \catcode entries) used as integers, dimensions, glue and units (TeX.2021.413, 448-455, 461), and the arithmetic
/// primitives on \dimen and \skip, against values computed here with TeX's integer algorithms
#[test]
fn internal_quantities_match_tex() {
    std::panic::set_hook(Box::new(|_| {}));
    let max = (1i64 << 30) - 1;
    let mut cases: Vec<(String, String)> = Vec::new();
    for n in [0i64, 1, -1, 7, -7, 255, 16383, -16383, 65536, -65537, 1073741823, -1073741823, 2147483647, -2147483647] {
        let set = format!(r"\count1={n} ");
        cases.push((format!(r"{set}\count2=\count1 \the\count2"), format!("{n}")));
        cases.push((format!(r"{set}\count2=-\count1 \the\count2"), format!("{}", -n)));
        cases.push((format!(r"{set}\count2=--\count1 \the\count2"), format!("{n}")));
        cases.push((format!(r"{set}\count2=+ - +\count1 \the\count2"), format!("{}", -n)));
        if n.abs() <= max {
            cases.push((format!(r"{set}\dimen2=\count1 sp \count2=\dimen2 \the\count2"), format!("{n}")));
            cases.push((format!(r"{set}\dimen2=-\count1 sp \the\dimen2"), format!("{}pt", print_scaled_tex(-n))));
            cases.push((format!(r"{set}\skip2=\count1 sp plus \count1 sp minus -\count1 sp \the\skip2"),
                if n == 0 { "0.0pt".to_string() } else { format!("{0}pt plus {0}pt minus {1}pt", print_scaled_tex(n), print_scaled_tex(-n)) }));
        }
        if n.abs() <= 16383 {
            cases.push((format!(r"{set}\dimen2=\count1 pt \the\dimen2"), format!("{}pt", print_scaled_tex(n * 65536))));
            cases.push((format!(r"{set}\dimen2=-\count1 pt \count2=\dimen2 \the\count2"), format!("{}", -n * 65536)));
        }
    }
    for d in [0i64, 1, -1, 7, -7, 65536, -65536, 100000, -100000, 12345678, -12345678, 357913941, 1073741823, -1073741823] {
        let set = format!(r"\dimen1={d}sp ");
        cases.push((format!(r"{set}\count2=\dimen1 \the\count2"), format!("{d}")));
        cases.push((format!(r"{set}\count2=-\dimen1 \the\count2"), format!("{}", -d)));
        cases.push((format!(r"{set}\dimen2=\dimen1 \the\dimen2"), format!("{}pt", print_scaled_tex(d))));
        cases.push((format!(r"{set}\dimen2=-\dimen1 \the\dimen2"), format!("{}pt", print_scaled_tex(-d))));
        cases.push((format!(r"{set}\skip2=\dimen1 \the\skip2"), format!("{}pt", print_scaled_tex(d))));
        cases.push((format!(r"{set}\skip2=-\dimen1 \count2=\skip2 \the\count2"), format!("{}", -d)));
        cases.push((format!(r"{set}\advance\dimen1 by -\dimen1 \the\dimen1"), "0.0pt".to_string()));
        cases.push((format!(r"{set}\count3=5 \advance\count3 by \dimen1 \the\count3"), format!("{}", 5 + d)));
        cases.push((format!(r"{set}\count3=5 \advance\count3 -\dimen1 \the\count3"), format!("{}", 5 - d)));
        cases.push((format!(r"{set}\count3=5 \ifnum\dimen1>\count3 a\else b\fi"), (if d > 5 { "a" } else { "b" }).to_string()));
        cases.push((format!(r"{set}\divide\dimen1 by 3 \count2=\dimen1 \the\count2"), format!("{}", d / 3)));
        cases.push((format!(r"{set}\divide\dimen1 by -3 \count2=\dimen1 \the\count2"), format!("{}", d / -3)));
        // a decimal coefficient times an internal dimension: TeX.2021.455-456 nx_plus_y(integer part, v, xn_over_d(v, f, 2^16))
        for (coef, ip, f) in [("1.5", 1i64, 32768i64), ("0.3", 0, 19661), ("2", 2, 0), ("-1.5", -1, -32768), (".75", 0, 49152), ("-0.3", 0, -19661)] {
            let neg = coef.starts_with('-');
            let r = ip.abs() * d + frac_of(d, f.abs());
            let r = if neg { -r } else { r };
            if r.abs() <= max {
                cases.push((format!(r"{set}\dimen2={coef}\dimen1 \count2=\dimen2 \the\count2"), format!("{r}")));
            }
        }
        if (3 * d).abs() <= max {
            cases.push((format!(r"{set}\multiply\dimen1 by -3 \count2=\dimen1 \the\count2"), format!("{}", -3 * d)));
            cases.push((format!(r"{set}\skip2=\dimen1 plus 2\dimen1 minus -\dimen1 \the\skip2"),
                if d == 0 { "0.0pt".to_string() } else { format!("{}pt plus {}pt minus {}pt", print_scaled_tex(d), print_scaled_tex(2 * d), print_scaled_tex(-d)) }));
        }
    }
    for w in [0i64, 1, -1, 65536, -98304, 100001, 357913941, -357913941] {
        let set = format!(r"\skip1={w}sp plus 3pt minus 2fil ");
        cases.push((format!(r"{set}\count2=\skip1 \the\count2"), format!("{w}")));
        cases.push((format!(r"{set}\count2=-\skip1 \the\count2"), format!("{}", -w)));
        cases.push((format!(r"{set}\dimen2=\skip1 \the\dimen2"), format!("{}pt", print_scaled_tex(w))));
        cases.push((format!(r"{set}\dimen2=-\skip1 \count2=\dimen2 \the\count2"), format!("{}", -w)));
        cases.push((format!(r"{set}\dimen2=2\skip1 \count2=\dimen2 \the\count2"), format!("{}", 2 * w)));
        cases.push((format!(r"{set}\skip2=\skip1 \the\skip2"), format!("{}pt plus 3.0pt minus 2.0fil", print_scaled_tex(w))));
        cases.push((format!(r"{set}\skip2=-\skip1 \the\skip2"), format!("{}pt plus -3.0pt minus -2.0fil", print_scaled_tex(-w))));
        cases.push((format!(r"{set}\skip2=--\skip1 \the\skip2"), format!("{}pt plus 3.0pt minus 2.0fil", print_scaled_tex(w))));
        cases.push((format!(r"{set}\multiply\skip1 by 3 \the\skip1"), format!("{}pt plus 9.0pt minus 6.0fil", print_scaled_tex(3 * w))));
        cases.push((format!(r"{set}\multiply\skip1 -1 \the\skip1"), format!("{}pt plus -3.0pt minus -2.0fil", print_scaled_tex(-w))));
        cases.push((format!(r"{set}\divide\skip1 by -2 \the\skip1"), format!("{}pt plus -1.5pt minus -1.0fil", print_scaled_tex(w / -2))));
        cases.push((format!(r"{set}\divide\skip1 by 4 \the\skip1"), format!("{}pt plus 0.75pt minus 0.5fil", print_scaled_tex(w / 4))));
        cases.push((format!(r"{set}\advance\skip1 by -\skip1 \the\skip1"), "0.0pt".to_string()));
        cases.push((format!(r"{set}\skip2=\skip1 \advance\skip2 by \skip1 \the\skip2"), format!("{}pt plus 6.0pt minus 4.0fil", print_scaled_tex(2 * w))));
    }
    for n in [0i64, 1, 65, 255] {
        cases.push((format!(r"\chardef\c={n} \count2=\c \the\count2"), format!("{n}")));
        cases.push((format!(r"\chardef\c={n} \count2=-\c \the\count2"), format!("{}", -n)));
        cases.push((format!(r"\chardef\c={n} \the\c"), format!("{n}")));
        cases.push((format!(r"\chardef\c={n} \dimen2=\c pt \the\dimen2"), format!("{n}.0pt")));
        cases.push((format!(r"\chardef\c={n} \dimen2=1.5\c \count2=\dimen2 \the\count2"), format!("{}", n + n * 32768 / 65536)));
    }
    for n in [0i64, 1, 4660, 28672, 32767] {
        cases.push((format!(r"\mathchardef\m={n} \count2=\m \the\count2"), format!("{n}")));
        cases.push((format!(r"\mathchardef\m={n} \the\m"), format!("{n}")));
        cases.push((format!(r"\mathchardef\m={n} \dimen2=\m sp \count2=\dimen2 \the\count2"), format!("{n}")));
    }
    for c in [0i64, 9, 12, 15] {
        cases.push((format!(r"\catcode`\~={c} \count2=\catcode`\~ \the\count2"), format!("{c}")));
        cases.push((format!(r"\catcode`\~={c} \the\catcode`\~"), format!("{c}")));
        cases.push((format!(r"\catcode`\~={c} \dimen2=\catcode`\~ pt \the\dimen2"), format!("{c}.0pt")));
    }
    // beyond the range of the code: the documented error (TeX.2021.1232 "Invalid code"), never a value taken modulo 256
    for c in [16i64, 17, 255, 256, 267, 271, 65536, 65547, -1, -245, -256, 2147483647, -2147483647] {
        cases.push((format!(r"\catcode`\~={c} \the\catcode`\~"), "!error".to_string()));
    }
    // (texcraft's characters are Unicode scalar values: \chardef accepts what `char` does)
    for c in [1114112i64, 1114177, 16777216, 2147483647, -1, -191, -256] {
        cases.push((format!(r"\chardef\c={c} \the\c"), "!error".to_string()));
    }
    for c in [32769i64, 65536, 98304, -1, -32768, -65535] {
        cases.push((format!(r"\mathchardef\m={c} \the\m"), "!error".to_string()));
    }
    cases.push((r"\count2=\catcode`a \the\count2".to_string(), "11".to_string()));
    cases.push((r"\count2=\catcode`\\ \the\count2".to_string(), "0".to_string()));
    cases.push((r"\count2=\catcode`1 \the\count2".to_string(), "12".to_string()));
    for (unit, sp) in [("pt", 65536i64), ("pc", 786432), ("in", 4736286), ("bp", 65781), ("cm", 1864679), ("mm", 186467), ("dd", 70124), ("cc", 841489), ("sp", 1)] {
        cases.push((format!(r"\dimen2=1{unit} \count2=\dimen2 \the\count2"), format!("{sp}")));
        cases.push((format!(r"\dimen2=1 true{unit} \count2=\dimen2 \the\count2"), format!("{sp}")));
        // KNOWN FINDING (class below): TeX's scan_keyword skips spaces before EVERY keyword (TeX.2021.407), so `true pt` is 1pt
        if unit == "pt" || unit == "mm" { cases.push((format!(r"\dimen2=1true {unit} \count2=\dimen2 \the\count2"), format!("{sp}"))); }
        cases.push((format!(r"\dimen2=-1{unit} \count2=\dimen2 \the\count2"), format!("{}", -sp)));
        cases.push((format!(r"\skip2=0pt plus 1{unit} minus -1{unit} \dimen2=\skip2 \the\skip2"),
            format!("0.0pt plus {}pt minus {}pt", print_scaled_tex(sp), print_scaled_tex(-sp))));
    }
    // same class: `fil l` is fill, `fil l l` is filll (TeX.2021.454 scans each l with scan_keyword)
    cases.push((r"\skip2=0pt plus 1fil l\relax \the\skip2".to_string(), "0.0pt plus 1.0fill".to_string()));
    cases.push((r"\skip2=0pt plus 1fill minus 2fil L l\relax \the\skip2".to_string(), "0.0pt plus 1.0fill minus 2.0filll".to_string()));
    // same class: a space (here from a macro) before `by`, `plus`, `minus`
    cases.push((r"\def\s{ }\count1=5 \advance\count1 \s by 2 \the\count1".to_string(), "7".to_string()));
    cases.push((r"\def\s{ }\skip2=1pt\s\s plus 2pt\relax \the\skip2".to_string(), "1.0pt plus 2.0pt".to_string()));
    cases.push((r"\def\s{ }\skip2=1pt plus 2pt\s\s minus 3pt\relax \the\skip2".to_string(), "1.0pt plus 2.0pt minus 3.0pt".to_string()));
    let n_cases = cases.len();
    let mut failures = 0;
    for (src, want) in cases {
        // (\relax before the final \the: after a glue without `plus` / `minus`, or a number without a space, TeX looks ahead WITH
        //  expansion, so a \the right behind it would be expanded before the assignment is done - in TeX too)
        let src = src.replace(r" \the", r" \relax\the");
        let got = run(&src);
        let strip = |s: &str| s.split_whitespace().collect::<String>();
        if want == "!error" { if matches!(&got, Some(Err(_))) { continue; } }
        else if matches!(&got, Some(Ok(out)) if strip(out) == strip(&want)) { continue; }
        let (f, obs) = match &got { None => ("run", "panic".to_string()), Some(Ok(o)) => ("internal_quantity", format!("prints {}", o.trim())), Some(Err(e)) => ("internal_quantity", format!("reports an error: {}", e.lines().next().unwrap_or(""))) };
        // the known finding is labelled only when the failure is exactly the one it describes: the keyword after the space is not
        // seen (an error for the missing unit; the l's typeset as text before the value of the glue is printed)
        let known = match &got {
            Some(Err(_)) => (src.contains("=1true ") || src.contains("\\s by 2")) && want != "!error",
            Some(Ok(o)) => (src.contains("1fil l\\relax") && strip(o) == "l0.0ptplus1.0fil") || (src.contains("2fil L l\\relax") && strip(o) == "Ll0.0ptplus1.0fillminus2.0fil")
                || (src.contains("1pt\\s\\s plus 2pt") && strip(o) == "plus2pt1.0pt") || (src.contains("2pt\\s\\s minus 3pt") && strip(o) == "minus3pt1.0ptplus2.0pt"),
            None => false,
        };
        if known {
            println!("WITNESS {{\"fn\": \"internal_quantity\", \"class\": \"spaces before a keyword are not skipped\", \"source\": \"{}\", \"observed\": \"{}\", \"expected\": \"{want} (TeX.2021.407, 454, 457)\"}}",
                src.replace('\\', "\\\\"), obs.replace('\\', "/").replace('"', "'"));
            continue;
        }
        println!("WITNESS {{\"fn\": \"{f}\", \"unit_fns\": [\"parse_internal_number\", \"parse_impl\", \"scan_dimen\", \"apply\"], \"source\": \"{}\", \"observed\": \"{}\", \"expected\": \"{want} (TeX.2021.413, 448-461, 1236-1240)\"}}",
            src.replace('\\', "\\\\"), obs.replace('\\', "/").replace('"', "'"));
        failures += 1;
        if failures >= 10 { return; }
    }
    println!("STATS {{\"driver\": \"internal quantities\", \"programs\": {n_cases}}}");
}
