// Bounded stand-in for the VM-level clauses of property C07:
//  (1) nested conditionals deliver exactly the selected branch (trees of depth <= 3 generated from a grammar, skipped
//      branches containing unbalanced braces, \let-aliased conditionals and \or/\else of inner conditionals), checked
//      against an evaluator of the tree;
//  (2) the simple and the optimised \expandafter are indistinguishable: every token string of length <= 5 over
//      { \xa, \a, \b, \c, x } is expanded by two VMs that differ only in which built-in is installed.
use std::collections::HashMap;
use texlang::traits::*;
use texlang::*;
use texlang::prelude as txl;
use texlang_testing::{TestingComponent, TestOption};
use crate::{conditional, prefix, expansion, def, alias};

#[derive(Default)]
pub struct State { prefix: prefix::Component, conditional: conditional::Component, testing: TestingComponent }
impl TexlangState for State {
    fn expansion_override_hook(token: token::Token, input: &mut vm::ExpansionInput<Self>, tag: Option<command::Tag>) -> txl::Result<Option<token::Token>> {
        expansion::noexpand_hook(token, input, tag)
    }
    fn recoverable_error_hook(&self, e: error::TracedTexError) -> Result<(), Box<dyn error::TexError>> { TestingComponent::recoverable_error_hook(self, e) }
}
texlang::vm::implement_has_component![State { prefix: prefix::Component, conditional: conditional::Component, testing: TestingComponent, }];

fn built_ins(optimized: bool) -> HashMap<&'static str, command::BuiltIn<State>> {
    HashMap::from([
        ("def", def::get_def()), ("let", alias::get_let()), ("noexpand", expansion::get_noexpand()),
        ("xa", if optimized { expansion::get_expandafter_optimized() } else { expansion::get_expandafter_simple() }),
        ("iftrue", conditional::get_iftrue()), ("iffalse", conditional::get_iffalse()), ("ifnum", conditional::get_ifnum()),
        ("ifodd", conditional::get_ifodd()), ("ifcase", conditional::get_ifcase()), ("or", conditional::get_or()),
        ("else", conditional::get_else()), ("fi", conditional::get_fi()),
    ])
}

fn same(lhs: &str, rhs: &str, opt_l: bool, opt_r: bool) -> bool {
    let (l, r) = (lhs.to_string(), rhs.to_string());
    std::panic::catch_unwind(move || {
        // run both sides with their own built-ins by defining \xa differently is not possible inside one call of
        // run_expansion_equality_test, so the two VMs are driven through it twice against a common right-hand side
        let o1 = vec![TestOption::BuiltInCommandsDyn(Box::new(move || built_ins(opt_l))), TestOption::AllowUndefinedCommands(true)];
        texlang_testing::run_expansion_equality_test::<State, vm::DefaultHandlers>(&l, &r, false, &o1);
        let o2 = vec![TestOption::BuiltInCommandsDyn(Box::new(move || built_ins(opt_r))), TestOption::AllowUndefinedCommands(true)];
        texlang_testing::run_expansion_equality_test::<State, vm::DefaultHandlers>(&l, &r, false, &o2);
    }).is_ok()
}

// ---------------------------------------------------------------- (1) conditional trees
#[derive(Clone, Debug)]
enum Node { Text(&'static str), If(Cond, Vec<Node>, Option<Vec<Node>>), Case(i32, Vec<Vec<Node>>, Option<Vec<Node>>) }
#[derive(Clone, Copy, Debug)]
enum Cond { True, False, Num(i32, char, i32), Odd(i32), AliasTrue, AliasFalse, Src(&'static str, bool) }

fn cond_src(c: Cond) -> (String, bool) {
    match c {
        Cond::True => ("\\iftrue ".into(), true), Cond::False => ("\\iffalse ".into(), false),
        Cond::AliasTrue => ("\\ift ".into(), true), Cond::AliasFalse => ("\\iff ".into(), false),
        Cond::Num(a, r, b) => (format!("\\ifnum {a}{r}{b} "), match r { '<' => a < b, '=' => a == b, _ => a > b }),
        Cond::Odd(n) => (format!("\\ifodd {n} "), n % 2 != 0),
        Cond::Src(s, v) => (s.into(), v),
    }
}
fn render(ns: &[Node], src: &mut String, out: &mut String, live: bool) {
    for n in ns {
        match n {
            Node::Text(t) => { src.push_str(t); if live { out.push_str(&t.replace(['{', '}'], "")); } }
            Node::If(c, a, b) => {
                let (s, v) = cond_src(*c);
                src.push_str(&s);
                render(a, src, out, live && v);
                if let Some(b) = b { src.push_str("\\else "); render(b, src, out, live && !v); }
                src.push_str("\\fi ");
            }
            Node::Case(k, cases, els) => {
                src.push_str(&format!("\\ifcase {k} "));
                for (i, c) in cases.iter().enumerate() { if i > 0 { src.push_str("\\or "); } render(c, src, out, live && *k == i as i32); }
                if let Some(e) = els { src.push_str("\\else "); render(e, src, out, live && !(0 <= *k && (*k as usize) < cases.len())); }
                src.push_str("\\fi ");
            }
        }
    }
}

fn leaves() -> Vec<Vec<Node>> {
    vec![vec![], vec![Node::Text("a")], vec![Node::Text("b")]]
}
fn level(inner: &[Vec<Node>]) -> Vec<Vec<Node>> {
    let conds = [Cond::True, Cond::False, Cond::Num(-3, '<', 2), Cond::Num(2, '=', 2), Cond::Num(-1, '>', 0), Cond::Odd(-3), Cond::Odd(4), Cond::Odd(-2147483647), Cond::AliasTrue, Cond::AliasFalse,
        // blanks and the relation itself produced by macro expansion (TeX.2021.503 gets the next NON-BLANK NON-CALL token);
        // \sp -> one space, \e -> nothing, \lt -> `<`
        Cond::Src("\\ifnum 1 \\sp <2 ", true), Cond::Src("\\ifnum 1\\e\\sp\\sp =2 ", false), Cond::Src("\\ifnum 2\\lt 3 ", true),
        Cond::Src("\\ifnum 3 \\e\\sp >\\sp\\sp 2 ", true), Cond::Src("\\ifodd\\sp\\sp 3 ", true)];
    let mut v = vec![];
    for c in conds { for (i, a) in inner.iter().enumerate() { let b = &inner[(i + 1) % inner.len()];
        v.push(vec![Node::Text("x"), Node::If(c, a.clone(), Some(b.clone())), Node::Text("y")]);
        v.push(vec![Node::If(c, a.clone(), None)]);
    } }
    for k in [-1, 0, 1, 2, 3] { for (i, a) in inner.iter().enumerate() {
        let b = &inner[(i + 1) % inner.len()]; let c = &inner[(i + 2) % inner.len()];
        v.push(vec![Node::Case(k, vec![a.clone(), b.clone(), c.clone()], Some(vec![Node::Text("e")])), Node::Text("z")]);
        v.push(vec![Node::Case(k, vec![a.clone(), b.clone()], None)]);
    } }
    v
}

#[test]
fn conditional_trees() {
    std::panic::set_hook(Box::new(|_| {}));
    let l0 = leaves();
    let mut l1 = level(&l0);
    // skipped text may contain unbalanced braces: they play no role while skipping
    l1.push(vec![Node::If(Cond::False, vec![Node::Text("{"), Node::Text("a")], Some(vec![Node::Text("b")]))]);
    l1.push(vec![Node::If(Cond::True, vec![Node::Text("a")], Some(vec![Node::Text("}"), Node::Text("{")]))]);
    let pick: Vec<Vec<Node>> = l1.iter().step_by(7).cloned().chain(l0.iter().cloned()).collect();
    let l2 = level(&pick);
    let pick2: Vec<Vec<Node>> = l2.iter().step_by(41).cloned().chain(l1.iter().step_by(13).cloned()).collect();
    let l3 = level(&pick2);
    let mut n = 0u64;
    for tree in l1.iter().chain(l2.iter()).chain(l3.iter()) {
        let (mut src, mut out) = (String::from("\\let\\ift=\\iftrue \\let\\iff=\\iffalse \\def\\sp{ }\\def\\e{}\\def\\lt{<}"), String::new());
        render(tree, &mut src, &mut out, true);
        n += 1;
        if !same(&src, &out, true, true) {
            println!("WITNESS {{\"fn\": \"conditional\", \"unit_fns\": [\"false_case\", \"true_case\", \"if_case_primitive_fn\", \"or_primitive_fn\", \"else_primitive_fn\", \"fi_primitive_fn\", \"evaluate\", \"build_if_command\"], \"source\": \"{}\", \"observed\": \"delivered tokens differ\", \"expected\": \"{}\"}}", src.replace('\\', "\\\\"), out);
            return;
        }
    }
    println!("STATS {{\"fn\": \"conditional\", \"cases\": {n}}}");
}

// ---------------------------------------------------------------- (2) \expandafter: simple == optimised == TeX
#[derive(Clone, Copy, PartialEq, Debug)]
enum T { Xa, A, B, C, G, L(char) }
fn body(t: T) -> Option<Vec<T>> { match t { T::A => Some(vec![T::B, T::L('y')]), T::B => Some(vec![T::C, T::L('z')]), T::C => Some(vec![T::L('w')]), _ => None } }
/// expand the first token of the list once (TeX.2021.366-368: \expandafter = get t, get next, expand next ONCE, put t back)
fn expand_once(l: &mut Vec<T>) {
    if l.is_empty() { return; }
    match l[0] {
        T::Xa => {
            if l.len() < 2 { l.remove(0); return; }
            let t1 = l[1];
            let mut rest: Vec<T> = l[2..].to_vec();
            expand_once(&mut rest);
            *l = std::iter::once(t1).chain(rest.into_iter()).collect();
        }
        // \g#1y{(#1)}: a delimited parameter grabs tokens WITHOUT expanding them - this is what makes the moment at which
        // \expandafter expands a token observable in the final output
        T::G => {
            let rest: Vec<T> = l[1..].to_vec();
            match rest.iter().position(|t| *t == T::L('y')) {
                Some(k) => {
                    let mut n: Vec<T> = vec![T::L('(')];
                    n.extend(rest[..k].iter().copied());
                    n.push(T::L(')'));
                    n.extend(rest[k + 1..].iter().copied());
                    *l = n;
                }
                // no delimiter left: TeX reports a runaway argument - such strings are not compared
                None => { *l = vec![T::L('!')]; }
            }
        }
        t => if let Some(b) = body(t) { let rest: Vec<T> = l[1..].to_vec(); *l = b.into_iter().chain(rest.into_iter()).collect(); }
    }
}
fn full(mut l: Vec<T>) -> String {
    let mut out = String::new();
    let mut fuel = 10_000;
    while !l.is_empty() && fuel > 0 {
        fuel -= 1;
        match l[0] { T::L(c) => { out.push(c); l.remove(0); } _ => expand_once(&mut l) }
    }
    out
}

#[test]
fn expandafter_equivalence() {
    std::panic::set_hook(Box::new(|_| {}));
    let alphabet = [(T::Xa, "\\xa "), (T::A, "\\a "), (T::B, "\\b "), (T::C, "\\c "), (T::L('x'), "x"), (T::G, "\\g ")];
    let prelude = "\\def\\a{\\b y}\\def\\b{\\c z}\\def\\c{w}\\def\\g#1y{(#1)}";
    let mut n = 0u64;
    for len in 1..=6usize {
        let mut idx = vec![0usize; len];
        loop {
            let mut toks: Vec<T> = idx.iter().map(|&i| alphabet[i].0).collect();
            let mut body_src: String = idx.iter().map(|&i| alphabet[i].1).collect();
            // terminate every chain so that \expandafter never runs off the end of the input
            // (and every \g finds its delimiter)
            toks.extend([T::A, T::B, T::L('x'), T::L('y')]);
            body_src.push_str("\\a \\b xy");
            let src = format!("{prelude}{body_src}").replace("\\\\", "\\");
            let want = full(toks);
            if want.contains('!') { let mut p = 0; loop { if p == len { break; } idx[p] += 1; if idx[p] < alphabet.len() { break; } idx[p] = 0; p += 1; } if p == len { break; } continue; }
            n += 1;
            for optimized in [false, true] {
                if !same(&src, &want, optimized, optimized) {
                    println!("WITNESS {{\"fn\": \"expandafter\", \"unit_fns\": [\"expandafter_simple_fn\", \"expandafter_optimized_fn\"], \"source\": \"{}\", \"implementation\": \"{}\", \"observed\": \"expansion differs from TeX's\", \"expected\": \"{}\"}}",
                        src.replace('\\', "\\\\"), if optimized { "optimized" } else { "simple" }, want);
                    return;
                }
            }
            let mut p = 0;
            loop { if p == len { break; } idx[p] += 1; if idx[p] < alphabet.len() { break; } idx[p] = 0; p += 1; }
            if p == len { break; }
        }
    }
    println!("STATS {{\"fn\": \"expandafter\", \"cases\": {n}}}");
}

// ---------------------------------------------------------------- (3) \noexpand: exactly one expansion is suppressed (TeX.2021.358, 369)
/// tokens with TeX's `dont_expand` mark: \noexpand puts the next token back MARKED; the next time the mark is read the
/// token (if expandable) means \relax - it is delivered unexpanded - and the mark is gone; reading it without expansion
/// (a macro argument, the two tokens \expandafter takes) also removes the mark
#[derive(Clone, Copy, PartialEq, Debug)]
enum N { Xa, Ne, A, B, G, L(char) }
fn nbody(t: N) -> Option<Vec<N>> { match t { N::A => Some(vec![N::B, N::L('y')]), N::B => Some(vec![N::L('w'), N::L('z')]), _ => None } }
/// `lossy`: the behaviour of the code under test as read off its source (expand_once pushes the token the \noexpand hook
/// hands back WITHOUT any mark, so the protection is lost when \noexpand is expanded through \expandafter); used only to
/// LABEL a failure with its class
fn n_expand_once(l: &mut Vec<(N, bool)>, lossy: bool) {
    if l.is_empty() { return; }
    match l[0].0 {
        N::Xa => {
            if l.len() < 2 { l.remove(0); return; }
            let t1 = (l[1].0, false);
            let mut rest: Vec<(N, bool)> = l[2..].to_vec();
            // the second token is read by get_token: a marked token means \relax here (not expanded) and loses its mark
            if !rest.is_empty() { if rest[0].1 { rest[0].1 = false; } else if !matches!(rest[0].0, N::L(_)) { n_expand_once(&mut rest, lossy); } }
            *l = std::iter::once(t1).chain(rest.into_iter()).collect();
        }
        N::Ne => {
            if l.len() < 2 { l.remove(0); return; }
            let t = l[1].0;
            let mark = !matches!(t, N::L(_)) && !lossy;
            let rest: Vec<(N, bool)> = l[2..].to_vec();
            *l = std::iter::once((t, mark)).chain(rest.into_iter()).collect();
        }
        N::G => {
            let rest: Vec<(N, bool)> = l[1..].to_vec();
            match rest.iter().position(|t| t.0 == N::L('y')) {
                Some(k) => {
                    let mut n: Vec<(N, bool)> = vec![(N::L('('), false)];
                    n.extend(rest[..k].iter().map(|t| (t.0, false)));
                    n.push((N::L(')'), false));
                    n.extend(rest[k + 1..].iter().copied());
                    *l = n;
                }
                None => { *l = vec![(N::L('!'), false)]; }
            }
        }
        t => if let Some(b) = nbody(t) { let rest: Vec<(N, bool)> = l[1..].to_vec(); *l = b.into_iter().map(|x| (x, false)).chain(rest.into_iter()).collect(); }
    }
}
fn n_full(toks: &[N], lossy: bool) -> String {
    let mut l: Vec<(N, bool)> = toks.iter().map(|t| (*t, false)).collect();
    let mut out = String::new();
    let mut fuel = 10_000;
    let name = |t: N| match t { N::Xa => "xa", N::Ne => "noexpand", N::A => "a", N::B => "b", N::G => "g", N::L(_) => "" };
    while !l.is_empty() && fuel > 0 {
        fuel -= 1;
        match l[0] {
            (N::L(c), _) => { out.push(c); l.remove(0); }
            // a marked token is delivered unexpanded (written here as the top-level \noexpand that delivers it)
            (t, true) => { out.push_str(&format!("\\noexpand\\{} ", name(t))); l.remove(0); }
            // \noexpand met by the main loop itself: the next token is delivered unexpanded right away
            (N::Ne, false) => { if l.len() < 2 { l.remove(0); } else { let t = l[1].0; l.drain(0..2); match t { N::L(c) => out.push(c), t => out.push_str(&format!("\\noexpand\\{} ", name(t))) } } }
            _ => n_expand_once(&mut l, lossy),
        }
    }
    out
}

#[test]
fn noexpand_chains() {
    std::panic::set_hook(Box::new(|_| {}));
    let alphabet = [(N::Xa, "\\xa "), (N::Ne, "\\noexpand "), (N::A, "\\a "), (N::B, "\\b "), (N::L('x'), "x"), (N::G, "\\g ")];
    let prelude = "\\def\\a{\\b y}\\def\\b{wz}\\def\\g#1y{(#1)}";
    let (mut n, mut known, mut runaway) = (0u64, 0u64, 0u64);
    let mut known_reported = false;
    for len in 1..=5usize {
        let mut idx = vec![0usize; len];
        loop {
            let mut toks: Vec<N> = idx.iter().map(|&i| alphabet[i].0).collect();
            let mut body_src: String = idx.iter().map(|&i| alphabet[i].1).collect();
            toks.extend([N::A, N::L('x'), N::L('y')]);
            body_src.push_str("\\a xy");
            let src = format!("{prelude}{body_src}").replace("\\\\", "\\");
            let want = n_full(&toks, false);
            if !want.contains('!') {
                n += 1;
                for optimized in [false, true] {
                    if !same(&src, &want, optimized, optimized) {
                        let as_code = n_full(&toks, true);
                        // (where losing the mark turns the string into a runaway argument the run ends in an error and cannot be
                        //  compared with anything: counted, not judged)
                        if as_code != want && as_code.contains('!') { runaway += 1; continue; }
                        if as_code != want && same(&src, &as_code, optimized, optimized) {
                            // the ONE known deviation (known_findings.json): nothing else differs from TeX on this string
                            known += 1;
                            if !known_reported {
                                known_reported = true;
                                println!("WITNESS {{\"fn\": \"noexpand\", \"class\": \"noexpand mark lost when expanded through expandafter\", \"unit_fns\": [\"expand_once\", \"noexpand_hook\"], \"source\": \"{}\", \"observed\": \"expands to {}\", \"expected\": \"{} (TeX.2021.358, 369: the token stays unexpandable until it is next read)\"}}",
                                    src.replace('\\', "\\\\"), as_code.replace('\\', "\\\\"), want.replace('\\', "\\\\"));
                            }
                        } else {
                            println!("WITNESS {{\"fn\": \"noexpand\", \"unit_fns\": [\"expand_once\", \"noexpand_hook\", \"expandafter_simple_fn\", \"expandafter_optimized_fn\"], \"source\": \"{}\", \"implementation\": \"{}\", \"observed\": \"expansion differs from TeX's\", \"expected\": \"{}\"}}",
                                src.replace('\\', "\\\\"), if optimized { "optimized" } else { "simple" }, want.replace('\\', "\\\\"));
                            return;
                        }
                    }
                }
            }
            let mut p = 0;
            loop { if p == len { break; } idx[p] += 1; if idx[p] < alphabet.len() { break; } idx[p] = 0; p += 1; }
            if p == len { break; }
        }
    }
    println!("STATS {{\"fn\": \"noexpand\", \"cases\": {n}, \"of_the_known_class\": {known}, \"not_judged_runaway_under_the_known_deviation\": {runaway}}}");
}
