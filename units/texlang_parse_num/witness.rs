// Bounded stand-in for the integer / dimension scanners of crates/texlang/src/parse (property C06, C09): source
// strings are scanned by the REAL Parsable impls inside a real VM (errors recovered and counted) and compared with
// executable mirrors of TeX.2021 §§440-458 over i128.
use crate::traits::*;
use crate::{types, vm};
use std::cell::RefCell;
use std::collections::HashMap;

#[derive(Default)]
struct St { num_errors: RefCell<usize> }
impl TexlangState for St {
    fn recoverable_error_hook(&self, _e: crate::error::TracedTexError) -> Result<(), Box<dyn crate::error::TexError>> {
        *self.num_errors.borrow_mut() += 1;
        Ok(())
    }
}

/// returns (value, number of recovered errors) or None on panic / fatal error
fn scan<T: Parsable + 'static>(source: &str) -> Option<(T, usize)> {
    scan_rest::<T>(source).map(|(v, e, _)| (v, e))
}
/// the same, with the characters left in the input after the scan (control sequences shown as a backslash)
fn scan_rest<T: Parsable + 'static>(source: &str) -> Option<(T, usize, String)> {
    let src = source.to_string();
    std::panic::catch_unwind(move || {
        let mut vm = vm::VM::<St>::new_with_built_in_commands(HashMap::new());
        vm.push_source("".to_string(), src).unwrap();
        let input = vm::ExecutionInput::new(&mut vm);
        let got = T::parse(input).ok()?;
        let mut rest = String::new();
        while let Ok(Some(t)) = input.unexpanded().next() { rest.push(t.char().unwrap_or('\\')); }
        let n = *vm.state.num_errors.borrow();
        Some((got, n, rest))
    }).ok().flatten()
}

const MAXD: i128 = (1 << 30) - 1;
fn rd(ds: &[u8]) -> i128 { let mut a: i128 = 0; for d in ds.iter().rev() { a = (a + (*d as i128) * 131072) / 10; } (a + 1) / 2 }
fn unit_frac(u: &str) -> (i128, i128) {
    match u { "pt" => (1, 1), "pc" => (12, 1), "in" => (7227, 100), "bp" => (7227, 7200), "cm" => (7227, 254), "mm" => (7227, 2540),
              "dd" => (1238, 1157), "cc" => (14856, 1157), _ => (1, 65536) }
}
/// TeX.2021.448-458: |value| of <ip>.<digits><unit>, None = "Dimension too large"
fn dimen_spec(ip: i128, digits: &[u8], u: &str) -> Option<i128> {
    let k = digits.len().min(17);
    let fp = rd(&digits[..k]);
    if u == "sp" { return if ip > MAXD { None } else { Some(ip) }; }
    let (n, d) = unit_frac(u);
    let q = (ip * n) / d; let rem = (ip * n) % d;
    let f = (n * fp + 65536 * rem) / d;
    let cv = q + f / 65536;
    if q > MAXD || cv >= 16384 { None } else { Some(cv * 65536 + f % 65536) }
}

fn check_dimen(sign: &str, ip: u64, digits: &[u8], unit: &str) -> bool {
    let frac: String = digits.iter().map(|d| (b'0' + d) as char).collect();
    let src = if digits.is_empty() { format!("{sign}{ip}{unit} ") } else { format!("{sign}{ip}.{frac}{unit} ") };
    let negative = sign.matches('-').count() % 2 == 1;
    let got = scan::<common::Scaled>(&src);
    let (want_v, want_e) = if ip > i32::MAX as u64 {
        return true; // the integer part itself overflows: covered by the integer cases
    } else {
        match dimen_spec(ip as i128, digits, unit) { Some(v) => (if negative { -v } else { v }, 0usize), None => (if negative { -MAXD } else { MAXD }, 1usize) }
    };
    let ok = matches!(&got, Some((v, e)) if v.0 as i128 == want_v && *e == want_e);
    if !ok {
        println!("WITNESS {{\"fn\": \"scan_dimen\", \"unit_fns\": [\"scan_dimen\", \"scan_decimal_fraction\", \"scan_and_apply_units\", \"scan_constant_dimen\", \"handle_overflow\"], \"source\": \"{src}\", \"observed\": \"{:?}\", \"expected\": \"{want_v}sp with {want_e} error(s) (TeX.2021.448-458)\"}}", got.map(|(v, e)| (v.0, e)));
    }
    ok
}

#[test]
fn dimensions() {
    std::panic::set_hook(Box::new(|_| {}));
    let units = ["pt", "pc", "in", "bp", "cm", "mm", "dd", "cc", "sp"];
    let ips: [u64; 18] = [0, 1, 2, 7, 99, 226, 227, 575, 576, 1365, 1366, 5758, 5759, 16383, 16384, 65536, 1073741823, 1073741824];
    let fracs: Vec<Vec<u8>> = vec![vec![], vec![0], vec![5], vec![9, 9, 9, 9, 8], vec![9, 9, 9, 9, 9], vec![2, 7, 7, 7, 9], vec![0, 0, 0, 0, 1], vec![0, 0, 0, 0, 0, 7, 6, 3],
        vec![9; 16], vec![9; 17], vec![9; 18], vec![4, 9, 9, 9, 9, 9, 9, 9, 9, 9, 9, 9, 9, 9, 9, 9, 9, 9, 9, 9]];
    for u in units { for ip in ips { for f in &fracs { for s in ["", "-", "+", "--", "- -", "-+-"] { if !check_dimen(s, ip, f, u) { return; } } } } }
    // half-sp ties: (2k+1)/2^17 has an exact 17-digit decimal expansion (2k+1)*5^17; TeX keeps 17 digits and rounds up
    let p: u128 = 5u128.pow(17);
    for k in (0u128..65536).step_by(61).chain([0u128, 1, 13848, 32767, 65534, 65535]) {
        let s = format!("{:017}", (2 * k + 1) * p);
        let digits: Vec<u8> = s.bytes().map(|b| b - b'0').collect();
        for cut in [15usize, 16, 17] { if !check_dimen("", 0, &digits[..cut], "pt") { return; } }
        let mut longer = digits.clone(); longer.extend([0, 0, 1]);
        if !check_dimen("", 3, &longer, "pt") { return; }
        if !check_dimen("-", 1, &digits, "in") { return; }
    }
}

#[test]
fn integers() {
    std::panic::set_hook(Box::new(|_| {}));
    let vals: [u64; 16] = [0, 1, 7, 8, 9, 10, 255, 256, 65535, 214748364, 2147483639, 2147483646, 2147483647, 2147483648, 2147483649, 99999999999];
    for v in vals { for (radix, pre) in [(10u32, ""), (8, "'"), (16, "\"")] { for sign in ["", "-", "--", "+ -"] {
        let body = match radix { 10 => format!("{v}"), 8 => format!("{v:o}"), _ => format!("{v:X}") };
        let src = format!("{sign}{pre}{body} ");
        let negative = sign.matches('-').count() % 2 == 1;
        let (mag, errs) = if v > i32::MAX as u64 { (i32::MAX as i128, 1usize) } else { (v as i128, 0usize) };
        let want = if negative { -mag } else { mag };
        // every digit of the constant and ONE following space are consumed, also after an overflow (TeX.2021.445)
        let got = scan_rest::<i32>(&format!("{src}x"));
        if !matches!(&got, Some((g, e, rest)) if *g as i128 == want && *e == errs && rest.trim_end() == "x") {
            println!("WITNESS {{\"fn\": \"parse_constant\", \"unit_fns\": [\"parse_constant\", \"add_lsd\", \"parse_integer\", \"parse_optional_signs\"], \"source\": \"{src}\", \"observed\": \"{}\", \"expected\": \"{want} with {errs} error(s) and only `x` left in the input (TeX.2021.440-445)\"}}", format!("{:?}", got).replace('"', "'"));
            return;
        }
    } } }
}


/// TeX.2021.453-454,458 for the infinite units of a glue stretch: attach_fraction then the |cur_val| >= 2^30 test
#[test]
fn glue_fil_units() {
    std::panic::set_hook(Box::new(|_| {}));
    let ips: [u64; 8] = [0, 1, 99, 16382, 16383, 16384, 65536, 1073741823];
    let fracs: Vec<Vec<u8>> = vec![vec![], vec![0], vec![5], vec![9, 9, 9, 9, 8], vec![9, 9, 9, 9, 9], vec![9; 17], vec![0, 0, 0, 0, 1]];
    for (u, order) in [("fil", common::GlueOrder::Fil), ("fill", common::GlueOrder::Fill), ("filll", common::GlueOrder::Filll), ("fIL", common::GlueOrder::Fil), ("FilL", common::GlueOrder::Fill)] {
        for ip in ips { for f in &fracs { for sign in ["", "-"] {
            let frac: String = f.iter().map(|d| (b'0' + d) as char).collect();
            let src = if f.is_empty() { format!("3pt plus {sign}{ip}{u} ") } else { format!("3pt plus {sign}{ip}.{frac}{u} ") };
            let v = (ip as i128) * 65536 + rd(&f[..f.len().min(17)]);
            let (mag, errs) = if ip >= 16384 || v >= (1 << 30) { (MAXD, 1usize) } else { (v, 0usize) };
            let want = if sign == "-" { -mag } else { mag };
            let got = scan::<common::Glue>(&src);
            let ok = matches!(&got, Some((g, e)) if g.width.0 == 3 * 65536 && g.stretch.0 as i128 == want && g.stretch_order == order && *e == errs && g.shrink.0 == 0);
            if !ok {
                println!("WITNESS {{\"fn\": \"scan_and_apply_units\", \"unit_fns\": [\"scan_dimen\", \"scan_and_apply_units\", \"handle_overflow\"], \"source\": \"{src}\", \"observed\": \"{}\", \"expected\": \"stretch {want}sp order {order:?} with {errs} error(s) (TeX.2021.453-458)\"}}", format!("{:?}", got).replace('"', "'"));
                return;
            }
        } } }
    }
}

/// C09: character codes at and beyond every limit, including the surrogate range, never panic
#[test]
fn character_codes() {
    std::panic::set_hook(Box::new(|_| {}));
    for v in [0u64, 65, 255, 256, 55295, 55296, 56000, 57343, 57344, 1114110, 1114111, 1114112, 2147483647] {
        let src = format!("{v} ");
        let got = scan::<char>(&src);
        let valid = char::from_u32(v as u32).filter(|_| v < 1114111);
        let ok = match (&got, valid) { (Some((c, 0)), Some(w)) => *c == w, (Some((_, e)), None) => *e >= 1, _ => false };
        if !ok {
            println!("WITNESS {{\"fn\": \"parse_impl\", \"unit_fns\": [\"parse_impl\"], \"source\": \"{src}\", \"observed\": \"{:?}\", \"expected\": \"the character, or a recoverable error for a number that is not a Unicode scalar value - never a panic\"}}", got);
            return;
        }
    }
}

/// TeX.2021.407 scan_keyword: a keyword that matches only PARTLY puts every token back in its original order, so the
/// characters left after the scan are exactly the ones that were not part of the value
#[test]
fn keyword_partial_matches() {
    std::panic::set_hook(Box::new(|_| {}));
    // (source, width sp, stretch sp, shrink sp, what must be left in the input)
    let cases: [(&str, i32, i32, i32, &str); 16] = [
        ("1pt pl", 65536, 0, 0, "pl"), ("1pt plu", 65536, 0, 0, "plu"), ("1pt plux", 65536, 0, 0, "plux"), ("1pt p", 65536, 0, 0, "p"),
        ("1pt plus 2pt mi", 65536, 131072, 0, "mi"), ("1pt plus 2pt minu", 65536, 131072, 0, "minu"), ("1pt plus 2pt minute", 65536, 131072, 0, "minute"),
        ("1pt min", 65536, 0, 0, "min"), ("1pt minus 3pt plu", 65536, 0, 196608, "plu"), ("1pt minus 3pt", 65536, 0, 196608, ""),
        ("1pt minus 3pt plus 2pt", 65536, 0, 196608, "plus 2pt"), ("1pt plus 1fi", 65536, 0, 0, "fi"), ("1pt plus 1filx", 65536, 65536, 0, "x"),
        ("1pt plus 1fillll", 65536, 65536, 0, ""), ("1pt PLus 2PT MINus 3pT tr", 65536, 131072, 196608, "tr"), ("1ptplus2ptminus3ptminus", 65536, 131072, 196608, "minus"),
    ];
    for (src, w, st, sh, rest) in cases {
        let got = scan_rest::<common::Glue>(src);
        // (a missing unit after `plus 1fi` / a value that is not there are errors: only the leftover is compared then)
        let ok = match &got {
            Some((g, _e, r)) => r.trim_end() == rest && g.width.0 == w && (src.contains("1fi") && !src.contains("fil") || (g.stretch.0 == st && g.shrink.0 == sh)),
            None => false,
        };
        if !ok {
            println!("WITNESS {{\"fn\": \"parse_keyword\", \"unit_fns\": [\"parse_keyword\", \"parse_impl\"], \"source\": \"{src}\", \"observed\": \"{}\", \"expected\": \"width {w}sp stretch {st}sp shrink {sh}sp, then `{rest}` left in the input in its original order (TeX.2021.407, 461)\"}}", format!("{:?}", got).replace('"', "'"));
            return;
        }
    }
    // the same for a dimension: `true`, the units, em / ex
    for (src, v, rest) in [("1tr", 65536, "tr"), ("1 tru", 65536, "tru"), ("1truept", 65536, ""), ("1pq", 65536, "pq"), ("1e", 65536, "e"), ("1.5ptp", 98304, "p"), ("2cq", 131072, "cq")] {
        let got = scan_rest::<common::Scaled>(src);
        let ok = matches!(&got, Some((d, _e, r)) if r.trim_end() == rest && d.0 == v);
        if !ok {
            println!("WITNESS {{\"fn\": \"parse_keyword\", \"unit_fns\": [\"parse_keyword\", \"scan_and_apply_units\"], \"source\": \"{src}\", \"observed\": \"{}\", \"expected\": \"{v}sp (a missing unit is an error and pt is assumed), then `{rest}` left in the input\"}}", format!("{:?}", got).replace('"', "'"));
            return;
        }
    }
}
