// Witness driver for unit stdext_groupingmap (and the KMP matcher): exhaustive small domains against executable mirrors
// of the contracts.  Prints `WITNESS {json}` for the first failing input of each function.
use crate::collections::groupingmap::*;
use crate::algorithms::substringsearch::Matcher;
use crate::collections::nevec::Nevec;

/// the stack-of-snapshots model of the contract (DESIGN §4)
#[derive(Clone, PartialEq, Debug)]
struct Model { cur: std::collections::BTreeMap<u8, u8>, saved: Vec<std::collections::BTreeMap<u8, u8>> }

#[derive(Clone, Copy, Debug)]
enum Op { Local(u8, u8), Global(u8, u8), Begin, End }

fn apply_model(m: &mut Model, op: Op) {
    match op {
        Op::Local(k, v) => { m.cur.insert(k, v); }
        Op::Global(k, v) => { m.cur.insert(k, v); for s in m.saved.iter_mut() { s.insert(k, v); } }
        Op::Begin => m.saved.push(m.cur.clone()),
        Op::End => { if let Some(s) = m.saved.pop() { m.cur = s; } }
    }
}

fn visible<T: BackingContainerProbe>(g: &T) -> std::collections::BTreeMap<u8, u8> { g.probe() }
trait BackingContainerProbe { fn probe(&self) -> std::collections::BTreeMap<u8, u8>; }
impl BackingContainerProbe for GroupingHashMap<u8, u8> {
    fn probe(&self) -> std::collections::BTreeMap<u8, u8> { (0u8..3).filter_map(|k| self.get(&k).map(|v| (k, *v))).collect() }
}
impl BackingContainerProbe for GroupingVec<u8> {
    fn probe(&self) -> std::collections::BTreeMap<u8, u8> { (0u8..3).filter_map(|k| self.get(&(k as usize)).map(|v| (k, *v))).collect() }
}

fn run_history(ops: &[Op], vec_backed: bool) -> Option<String> {
    let mut model = Model { cur: Default::default(), saved: vec![] };
    let mut hm: GroupingHashMap<u8, u8> = Default::default();
    let mut gv: GroupingVec<u8> = Default::default();
    for (i, op) in ops.iter().enumerate() {
        let existed = match op { Op::Local(k, _) | Op::Global(k, _) => model.cur.contains_key(k), _ => false };
        let depth_before = model.saved.len();
        apply_model(&mut model, *op);
        let (r1, r2) = match *op {
            Op::Local(k, v) => (Some(hm.insert(k, v, Scope::Local)), Some(gv.insert(k as usize, v, Scope::Local))),
            Op::Global(k, v) => (Some(hm.insert(k, v, Scope::Global)), Some(gv.insert(k as usize, v, Scope::Global))),
            Op::Begin => { hm.begin_group(); gv.begin_group(); (None, None) }
            Op::End => {
                let (a, b) = (hm.end_group(), gv.end_group());
                if a.is_err() != (depth_before == 0) || b.is_err() != (depth_before == 0) { return Some(format!("end_group error status wrong at step {i}")); }
                (None, None)
            }
        };
        if let Some(r) = if vec_backed { r2 } else { r1 } { if r != existed { return Some(format!("insert returned {r} but key existed = {existed} at step {i}")); } }
        let vis = if vec_backed { visible(&gv) } else { visible(&hm) };
        if vis != model.cur { return Some(format!("visible map {vis:?} != model {:?} after step {i}", model.cur)); }
    }
    // close every open group: each snapshot must come back
    while let Some(s) = model.saved.pop() {
        model.cur = s;
        if vec_backed { let _ = gv.end_group(); } else { let _ = hm.end_group(); }
        let vis = if vec_backed { visible(&gv) } else { visible(&hm) };
        if vis != model.cur { return Some(format!("after closing a group visible map {vis:?} != snapshot {:?}", model.cur)); }
    }
    None
}

fn all_ops() -> Vec<Op> {
    let mut v = vec![Op::Begin, Op::End];
    for k in 0..2u8 { for val in 1..3u8 { v.push(Op::Local(k, val)); v.push(Op::Global(k, val)); } }
    v
}

#[test]
fn groupingmap_histories() {
    // every history of length <= 6 over 2 keys x 2 values (10^6 histories), both backing containers
    let ops = all_ops();
    let n = ops.len();
    for len in 1..=6usize {
        let mut idx = vec![0usize; len];
        loop {
            let h: Vec<Op> = idx.iter().map(|&i| ops[i]).collect();
            for vec_backed in [false, true] {
                if let Some(why) = run_history(&h, vec_backed) {
                    println!("WITNESS {{\"fn\": \"insert\", \"unit_fns\": [\"insert\", \"end_group\", \"begin_group\"], \"history\": \"{:?}\", \"backing\": \"{}\", \"observed\": \"{}\"}}",
                        h, if vec_backed { "Vec" } else { "HashMap" }, why.replace('"', "'"));
                    return;
                }
            }
            let mut p = 0;
            loop { if p == len { break; } idx[p] += 1; if idx[p] < n { break; } idx[p] = 0; p += 1; }
            if p == len { break; }
        }
    }
}

#[test]
fn kmp_matches() {
    // every pattern of length 1..=5 and text of length <= 10 over a 2-letter alphabet, patterns to length 4 over 3 letters
    for (alpha, max_p, max_t) in [(2u8, 6usize, 11usize), (3u8, 4usize, 8usize)] {
        for plen in 1..=max_p {
            let mut pat = vec![0u8; plen];
            loop {
                let matcher = Matcher::new(Nevec::new_with_tail(pat[0], pat[1..].to_vec()));
                for tlen in 0..=max_t {
                    let mut text = vec![0u8; tlen];
                    loop {
                        let mut search = matcher.start();
                        for i in 0..tlen {
                            let got = search.next(&text[i]);
                            let want = i + 1 >= plen && text[i + 1 - plen..=i] == pat[..];
                            if got != want {
                                println!("WITNESS {{\"fn\": \"next\", \"unit_fns\": [\"next\", \"new\"], \"pattern\": {:?}, \"text\": {:?}, \"position\": {}, \"observed\": {}, \"expected\": {}}}", pat, text, i, got, want);
                                return;
                            }
                        }
                        let mut p = 0;
                        loop { if p == tlen { break; } text[p] += 1; if text[p] < alpha { break; } text[p] = 0; p += 1; }
                        if p == tlen { break; }
                    }
                }
                let mut p = 0;
                loop { if p == plen { break; } pat[p] += 1; if pat[p] < alpha { break; } pat[p] = 0; p += 1; }
                if p == plen { break; }
            }
        }
    }
}
