// Witness driver for unit common_scaled: the contracts of Scaled arithmetic as executable i128 predicates (written
// from the unit's spec functions / TeX.2021 §§100-107, 458), evaluated on a boundary lattice against the real functions.
use crate::*;

const MAXD: i128 = (1 << 30) - 1;
fn tdiv(a: i128, b: i128) -> i128 { a / b }            // Rust `/` on i128 truncates toward zero, as the spec's tdiv
fn trem(a: i128, b: i128) -> i128 { a % b }

fn lattice() -> Vec<i32> {
    let mut v: Vec<i32> = vec![];
    for b in [0i64, 1, 2, 3, 5, 7, 10, 100, 255, 256, 1000, 7227, 65535, 65536, 65537, 131072, 1 << 20, (1 << 24) - 1, 1 << 24,
              (1 << 30) - 2, (1 << 30) - 1, 1 << 30, (1 << 30) + 1, (1 << 31) - 2, (1 << 31) - 1, 16383 * 65536, 16384 * 65536, 8192 * 65536, 4096 * 65536] {
        for s in [1i64, -1] { for d in [-1i64, 0, 1] { let x = s * b + d; if x >= i32::MIN as i64 && x <= i32::MAX as i64 { v.push(x as i32); } } }
    }
    v.push(i32::MIN); v.push(i32::MIN + 1);
    v.sort(); v.dedup(); v
}

fn catch<T>(f: impl FnOnce() -> T + std::panic::UnwindSafe) -> Option<T> { std::panic::catch_unwind(f).ok() }

#[test]
fn xn_over_d() {
    std::panic::set_hook(Box::new(|_| {}));
    let xs = lattice();
    let nds: Vec<i32> = vec![0, 1, 2, 3, 7, 12, 100, 254, 1000, 1157, 1238, 2540, 7200, 7227, 14856, 32768, 65535, 65536];
    for &x in &xs { for &n in &nds { for &d in &nds { if d == 0 { continue; }
        let want_q = tdiv(x as i128 * n as i128, d as i128); let want_r = trem(x as i128 * n as i128, d as i128);
        let got = catch(move || Scaled(x).xn_over_d(n, d));
        let ok = match &got {
            None => false,
            Some(Ok((q, r))) => q.0 as i128 == want_q && r.0 as i128 == want_r && want_q.abs() <= MAXD,
            Some(Err(_)) => want_q.abs() > MAXD,
        };
        if !ok { println!("WITNESS {{\"fn\": \"xn_over_d\", \"x\": {x}, \"n\": {n}, \"d\": {d}, \"observed\": \"{:?}\", \"expected\": \"quotient {want_q} remainder {want_r} (TeX.2021.107, truncation toward zero), Err iff |q| > 2^30-1\"}}", got.map(|g| g.map(|(a, b)| (a.0, b.0)).map_err(|_| "Err"))); return; }
    } } }
}

fn nx_plus_y_spec(n: i128, x: i128, y: i128) -> Option<i128> {
    if n == 0 { return Some(y); }
    let (nn, xx) = if n < 0 { (-n, -x) } else { (n, x) };
    if xx <= tdiv(MAXD - y, nn) && -xx <= tdiv(MAXD + y, nn) { Some(xx * nn + y) } else { None }
}

#[test]
fn nx_plus_y() {
    std::panic::set_hook(Box::new(|_| {}));
    let xs = lattice();
    let ns: Vec<i32> = vec![i32::MIN, -65536, -4, -3, -2, -1, 0, 1, 2, 3, 4, 7, 16, 65536, 16384, 32768, i32::MAX];
    for &x in &xs { for &n in &ns { for &y in &[0i32, 1, -1, 65536, -65536, (1 << 30) - 1, -((1 << 30) - 1), 1 << 30, i32::MAX, i32::MIN] {
        let want = nx_plus_y_spec(n as i128, x as i128, y as i128);
        let got = catch(move || Scaled(x).nx_plus_y(n, Scaled(y)));
        let ok = match (&got, &want) { (Some(Ok(v)), Some(w)) => v.0 as i128 == *w, (Some(Err(_)), None) => true, _ => false };
        if !ok { println!("WITNESS {{\"fn\": \"nx_plus_y\", \"x\": {x}, \"n\": {n}, \"y\": {y}, \"observed\": \"{:?}\", \"expected\": \"{:?} (TeX.2021.105 mult_and_add with max_answer 2^30-1)\"}}", got.map(|g| g.map(|a| a.0).map_err(|_| "Err")), want); return; }
    } } }
}

#[test]
fn checked_mul() {
    std::panic::set_hook(Box::new(|_| {}));
    for &x in &lattice() { for &n in &[i32::MIN, -4, -2, -1, 0, 1, 2, 4, 16384, i32::MAX] {
        let want = nx_plus_y_spec(n as i128, x as i128, 0);
        let got = catch(move || Scaled(x).checked_mul(n));
        let ok = match (&got, &want) { (Some(Some(v)), Some(w)) => v.0 as i128 == *w, (Some(None), None) => true, _ => false };
        if !ok { println!("WITNESS {{\"fn\": \"checked_mul\", \"x\": {x}, \"n\": {n}, \"observed\": \"{:?}\", \"expected\": \"{:?}\"}}", got.map(|g| g.map(|a| a.0)), want); return; }
    } }
}

fn rd(ds: &[u8]) -> i128 { let mut a: i128 = 0; for d in ds.iter().rev() { a = (a + (*d as i128) * 131072) / 10; } (a + 1) / 2 }

#[test]
fn from_decimal_digits() {
    std::panic::set_hook(Box::new(|_| {}));
    let mut cases: Vec<Vec<u8>> = vec![vec![], vec![0], vec![5], vec![9], vec![9; 17], vec![9; 20], vec![4, 9, 9, 9, 9, 9, 9, 9, 9, 9, 9, 9, 9, 9, 9, 9, 9],
        vec![0, 0, 0, 0, 0, 7, 6, 2, 9, 3, 9, 4, 5, 3, 1, 2, 5], vec![2, 1, 1, 3, 1, 1, 3, 4, 0, 3, 3, 2, 0, 3, 1, 2, 5]];
    for a in 0..10u8 { for b in 0..10u8 { for c in 0..10u8 { cases.push(vec![a, b, c]); cases.push(vec![a, b, c, 5, 0, 0, 0, 1]); } } }
    for ds in cases {
        let want = rd(&ds);
        let d2 = ds.clone();
        let got = catch(move || Scaled::from_decimal_digits(&d2));
        if got.map(|g| g.0 as i128) != Some(want) { println!("WITNESS {{\"fn\": \"from_decimal_digits\", \"digits\": {:?}, \"observed\": \"{:?}\", \"expected\": {want}}}", ds, got.map(|g| g.0)); return; }
    }
}

fn unit_frac(u: ScaledUnit) -> (i128, i128) {
    use ScaledUnit::*;
    match u { Point => (1, 1), Pica => (12, 1), Inch => (7227, 100), BigPoint => (7227, 7200), Centimeter => (7227, 254), Millimeter => (7227, 2540),
              DidotPoint => (1238, 1157), Cicero => (14856, 1157), ScaledPoint => (1, 65536) }
}
fn dimen_spec(ip: i128, fp: i128, u: ScaledUnit) -> Option<i128> {
    if u == ScaledUnit::ScaledPoint { return if ip > MAXD { None } else { Some(ip) }; }
    let (n, d) = unit_frac(u);
    let q = (ip * n) / d; let rem = (ip * n) % d;
    let f = (n * fp + 65536 * rem) / d;
    let cv = q + f / 65536;
    if q > MAXD || cv >= 16384 { None } else { Some(cv * 65536 + f % 65536) }
}

#[test]
fn new() {
    std::panic::set_hook(Box::new(|_| {}));
    use ScaledUnit::*;
    let ips: Vec<i32> = vec![0, 1, 2, 3, 7, 99, 100, 226, 227, 300, 575, 576, 1000, 1365, 1366, 5758, 5759, 16382, 16383, 16384, 16385, 65535, 65536, (1 << 30) - 1, 1 << 30, i32::MAX];
    let fps: Vec<i32> = vec![0, 1, 2, 3, 13848, 13849, 32767, 32768, 32769, 65534, 65535, 65536];
    for u in [Point, Pica, Inch, BigPoint, Centimeter, Millimeter, DidotPoint, Cicero, ScaledPoint] { for &ip in &ips { for &fp in &fps {
        let want = dimen_spec(ip as i128, fp as i128, u);
        let got = catch(move || Scaled::new(ip, Scaled(fp), u));
        let ok = match (&got, &want) { (Some(Ok(v)), Some(w)) => v.0 as i128 == *w, (Some(Err(_)), None) => true, _ => false };
        if !ok { println!("WITNESS {{\"fn\": \"new\", \"integer_part\": {ip}, \"fractional_part\": {fp}, \"unit\": \"{:?}\", \"observed\": \"{:?}\", \"expected\": \"{:?} (TeX.2021.458)\"}}", u, got.map(|g| g.map(|a| a.0).map_err(|_| "Err")), want); return; }
    } } }
}

#[test]
fn conversion_fraction() {
    use ScaledUnit::*;
    for u in [Point, Pica, Inch, BigPoint, Centimeter, Millimeter, DidotPoint, Cicero, ScaledPoint] {
        let (n, d) = u.conversion_fraction();
        if (n as i128, d as i128) != unit_frac(u) { println!("WITNESS {{\"fn\": \"conversion_fraction\", \"unit\": \"{:?}\", \"observed\": \"({n}, {d})\", \"expected\": \"{:?} (TeX.2021.458)\"}}", u, unit_frac(u)); return; }
    }
}

#[test]
fn from_integer_and_parts() {
    std::panic::set_hook(Box::new(|_| {}));
    for &i in &lattice() {
        let got = catch(move || Scaled::from_integer(i));
        let want = if -16384 < i && i < 16384 { Some(i as i128 * 65536) } else { None };
        let ok = match (&got, &want) { (Some(Ok(v)), Some(w)) => v.0 as i128 == *w, (Some(Err(_)), None) => true, _ => false };
        if !ok { println!("WITNESS {{\"fn\": \"from_integer\", \"i\": {i}, \"observed\": \"{:?}\", \"expected\": \"{:?}\"}}", got.map(|g| g.map(|a| a.0).map_err(|_| "Err")), want); return; }
        let ip = catch(move || Scaled(i).integer_part());
        if ip.map(|v| v as i128) != Some(tdiv(i as i128, 65536)) { println!("WITNESS {{\"fn\": \"integer_part\", \"x\": {i}, \"observed\": \"{:?}\", \"expected\": {}}}", ip, tdiv(i as i128, 65536)); return; }
        let fp = catch(move || Scaled(i).fractional_part());
        if fp.map(|v| v.0 as i128) != Some(trem(i as i128, 65536)) { println!("WITNESS {{\"fn\": \"fractional_part\", \"x\": {i}, \"observed\": \"{:?}\", \"expected\": {}}}", fp.map(|v| v.0), trem(i as i128, 65536)); return; }
    }
}

/// print -> scan round trip over the FULL fraction domain and a lattice of integer parts (C06: every value prints as a
/// decimal that scans back to the identical value)
#[test]
fn display_parse_roundtrip() {
    std::panic::set_hook(Box::new(|_| {}));
    for ip in [0i32, 1, 2, 9, 10, 99, 100, 16382, 16383] { for f in 0..65536i32 { for s in [1i32, -1] {
        let v = s * (ip * 65536 + f);
        if (v as i64).abs() > MAXD as i64 { continue; }
        let printed = format!("{}", Scaled(v).display_no_units());
        let p2 = printed.clone();
        let back = catch(move || Scaled::parse_no_units(&p2));
        let ok = matches!(&back, Some(Ok(b)) if b.0 == v);
        if !ok { println!("WITNESS {{\"fn\": \"display_no_units\", \"unit_fns\": [\"display_no_units\", \"parse_no_units\", \"from_decimal_digits\", \"new\"], \"value_sp\": {v}, \"printed\": \"{printed}\", \"observed\": \"{:?}\", \"expected\": \"scans back to {v}\"}}", back.map(|g| g.map(|a| a.0).map_err(|_| "Err"))); return; }
        // TeX prints at most 5 fraction digits and the shortest decimal that rounds back
        let frac = printed.split('.').nth(1).unwrap_or("");
        if frac.is_empty() || frac.len() > 5 { println!("WITNESS {{\"fn\": \"display_no_units\", \"value_sp\": {v}, \"printed\": \"{printed}\", \"observed\": \"{} fraction digits\", \"expected\": \"1..=5 digits (TeX.2021.103)\"}}", frac.len()); return; }
    } } }
}
