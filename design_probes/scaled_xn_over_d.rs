use vstd::prelude::*;
verus! {

pub struct Scaled(pub i32);

pub struct OverflowError;

pub open spec fn tdiv(a: int, b: int) -> int {
    if a >= 0 { a / b } else { -((-a) / b) }
}

impl Scaled {
    pub exec const MAX_DIMEN: Scaled
        ensures Self::MAX_DIMEN.0 == 0x3fff_ffff
    {
        proof { assert(1i32 << 30 == 0x4000_0000) by (bit_vector); }
        Scaled((1 << 30) - 1)
    }

    pub fn xn_over_d(&self, n: i32, d: i32) -> (r: Result<(Scaled, Scaled), OverflowError>)
        requires 0 <= n <= 0o200000, 0 < d <= 0o200000,
        ensures match r {
            Ok((q, rem)) => q.0 as int == tdiv(self.0 as int * n as int, d as int)
                && q.0 * d + rem.0 == self.0 * n && -0x3fff_ffff <= q.0 <= 0x3fff_ffff,
            Err(_) => tdiv(self.0 as int * n as int, d as int) > 0x3fff_ffff || tdiv(self.0 as int * n as int, d as int) < -0x3fff_ffff,
        }
    {
        let mut b: i64 = self.0.into();
        assert(-0x8000_0000 * 0x10000 <= b * (n as i64) <= 0x8000_0000 * 0x10000) by (nonlinear_arith)
            requires -0x8000_0000 <= b <= 0x7fff_ffff, 0 <= n <= 0x10000;
        b *= n as i64; // can't overflow because |b|<=2^31 and |n|<=2^16
        let remainder: i32 = (b % (d as i64)).try_into().expect("d<=2^16 so b%d<2^16");
        b = b / (d as i64);
        if b < -(Scaled::MAX_DIMEN.0 as i64) || b > Scaled::MAX_DIMEN.0 as i64 {
            return Err(OverflowError {});
        }
        let b: i32 = b.try_into().expect("b in (-2^30, +2^30)");
        Ok((Scaled(b), Scaled(remainder)))
    }
}

} // verus!
fn main() {}
