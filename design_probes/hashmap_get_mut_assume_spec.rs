#![feature(allocator_api)]
use vstd::prelude::*;
use std::collections::HashMap;
use std::collections::hash_map::Entry;
use std::hash::Hash;
verus! {
broadcast use vstd::std_specs::hash::group_hash_axioms;

pub assume_specification<'a, K, V, S, A, Q>[HashMap::<K, V, S, A>::get_mut::<Q>](m: &'a mut HashMap<K, V, S, A>, k: &Q) -> (r: Option<&'a mut V>)
    where
        A: std::alloc::Allocator,
        K: Eq + Hash + std::borrow::Borrow<Q>,
        Q: Hash + Eq + ?Sized,
        S: std::hash::BuildHasher,
    ensures
        vstd::std_specs::hash::obeys_key_model::<K>() && vstd::std_specs::hash::builds_valid_hashers::<S>() ==> match r {
            Some(v) => vstd::std_specs::hash::contains_borrowed_key(old(m)@, k) && vstd::std_specs::hash::maps_borrowed_key_to_value(old(m)@, k, *v)
                && vstd::std_specs::hash::contains_borrowed_key(final(m)@, k) && vstd::std_specs::hash::maps_borrowed_key_to_value(final(m)@, k, *final(v))
                && (exists|mid: Map<K, V>| vstd::std_specs::hash::borrowed_key_removed(old(m)@, mid, k) && vstd::std_specs::hash::borrowed_key_removed(final(m)@, mid, k)),
            None => !vstd::std_specs::hash::contains_borrowed_key(old(m)@, k) && final(m)@ == old(m)@,
        };

pub trait BackingContainer<K, V>: Default {
    spec fn bview(&self) -> Map<K, V>;

    fn insert(&mut self, k: K, v: V)
        ensures final(self).bview() == old(self).bview().insert(k, v);

    fn get_mut(&mut self, k: &K) -> (r: Option<&mut V>)
        ensures match r {
            Some(v) => old(self).bview().contains_key(*k) && *v == old(self).bview()[*k] && final(self).bview() == old(self).bview().insert(*k, *final(v)),
            None => !old(self).bview().contains_key(*k) && final(self).bview() == old(self).bview(),
        };

    fn remove(&mut self, k: &K)
        ensures final(self).bview() == old(self).bview().remove(*k);
}

impl<K: Eq + Hash + Clone, V> BackingContainer<K, V> for HashMap<K, V> {
    open spec fn bview(&self) -> Map<K, V> { self@ }

    fn insert(&mut self, k: K, v: V) {
        assume(vstd::std_specs::hash::obeys_key_model::<K>());
        HashMap::insert(self, k, v);
    }
    fn get_mut(&mut self, k: &K) -> (r: Option<&mut V>) {
        assume(vstd::std_specs::hash::obeys_key_model::<K>());
        let r = HashMap::get_mut(self, k);
        proof {
            if let Some(v) = r {
                let mid = choose|mid: Map<K, V>| vstd::std_specs::hash::borrowed_key_removed(old(self)@, mid, k) && vstd::std_specs::hash::borrowed_key_removed(final(self)@, mid, k);
                assert(mid == old(self)@.remove(*k));
                assert(mid == final(self)@.remove(*k));
                assert(final(self)@ =~= old(self)@.insert(*k, *final(v)));
            }
        }
        r
    }
    fn remove(&mut self, k: &K) {
        assume(vstd::std_specs::hash::obeys_key_model::<K>());
        HashMap::remove(self, k);
    }
}

} // verus!
fn main() {}
