use vstd::prelude::*;
verus! {

#[derive(Clone, Copy)]
pub struct Key(pub u32);

#[derive(Clone, Copy, PartialEq, Eq)]
pub enum Value {
    BeginGroup(char),
    EndGroup(char),
    Space(char),
    Letter(char),
    Other(char),
}

#[derive(Clone, Copy)]
pub struct Token { pub value: Value, pub trace_key: Key }

impl Token {
    pub fn value(&self) -> (v: Value) ensures v == self.value { self.value }
}

pub struct ShutdownSignal {}
pub type TxlResult<T> = std::result::Result<T, ShutdownSignal>;

// ---- trusted stream model
#[verifier::external_body]
#[verifier::reject_recursive_types(S)]
pub struct ExpandedStream<S> { _p: std::marker::PhantomData<S> }

impl<S> ExpandedStream<S> {
    pub uninterp spec fn pending(&self) -> Seq<Token>;

    #[verifier::external_body]
    pub fn next(&mut self) -> (r: TxlResult<Option<Token>>)
        ensures match r {
            Ok(Some(t)) => old(self).pending().len() > 0 && t == old(self).pending()[0] && final(self).pending() == old(self).pending().subrange(1, old(self).pending().len() as int),
            Ok(None) => old(self).pending().len() == 0 && final(self).pending() == old(self).pending(),
            Err(_) => true,
        }
    { unimplemented!() }

    #[verifier::external_body]
    pub fn back(&mut self, t: Token)
        ensures final(self).pending() == seq![t] + old(self).pending()
    { unimplemented!() }
}

fn add_lsd<const RADIX: i32>(n: i32, lsd: i32) -> (r: Option<i32>)
    requires RADIX == 8 || RADIX == 10 || RADIX == 16, 0 <= lsd < RADIX, n >= 0,
    ensures match r { Some(m) => m == n * RADIX + lsd, None => n * RADIX + lsd > i32::MAX }
{
    match n.checked_mul(RADIX) {
        None => None,
        Some(n) => n.checked_add(lsd),
    }
}

fn parse_constant<S, const RADIX: i32>(
    stream: &mut ExpandedStream<S>,
    mut result: i32,
) -> (r: TxlResult<i32>)
    requires RADIX == 8 || RADIX == 10 || RADIX == 16, result >= 0,
{
    let mut started = RADIX == 10;
    let mut too_big = false;
    loop 
        invariant result >= 0, RADIX == 8 || RADIX == 10 || RADIX == 16,
        decreases stream.pending().len(),
    {
        let next = match stream.next()? {
            None => break,
            Some(next) => next,
        };
        let lsd_or = match next.value() {
            Value::Other(c) => {
                let d = (c as u32).wrapping_sub('0' as u32);
                if d < 10 && d < (RADIX as u32) {
                    Some(d as i32)
                } else if RADIX == 16 {
                    let d = (c as u32).wrapping_sub('A' as u32);
                    if d < 6 {
                        Some(d as i32 + 10)
                    } else {
                        None
                    }
                } else {
                    None
                }
            }
            Value::Letter(c) => {
                let d = (c as u32).wrapping_sub('A' as u32);
                if RADIX == 16 && d < 6 {
                    Some(d as i32 + 10)
                } else {
                    None
                }
            }
            _ => None,
        };
        let lsd = match lsd_or {
            None => {
                stream.back(next);
                break;
            }
            Some(lsd) => lsd,
        };
        started = true;
        result = match add_lsd::<RADIX>(result, lsd) {
            Some(n) => n,
            None => {
                too_big = true;
                i32::MAX
            }
        }
    }
    Ok(result)
}

} // verus!
fn main() {}
