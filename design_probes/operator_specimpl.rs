use vstd::prelude::*;
use vstd::std_specs::ops::*;
verus! {

#[derive(Copy, Clone)]
pub struct Scaled(pub i32);

impl AddSpecImpl<Scaled> for Scaled {
    open spec fn obeys_add_spec() -> bool { true }
    open spec fn add_req(self, rhs: Scaled) -> bool { i32::MIN <= self.0 + rhs.0 <= i32::MAX }
    open spec fn add_spec(self, rhs: Scaled) -> Scaled { Scaled((self.0 + rhs.0) as i32) }
}

impl std::ops::Add<Scaled> for Scaled {
    type Output = Scaled;
    fn add(self, rhs: Scaled) -> Self::Output {
        Scaled(self.0 + rhs.0)
    }
}

impl DivSpecImpl<i32> for Scaled {
    open spec fn obeys_div_spec() -> bool { true }
    open spec fn div_req(self, rhs: i32) -> bool { rhs != 0 && !(self.0 == i32::MIN && rhs == -1) }
    open spec fn div_spec(self, rhs: i32) -> Scaled { Scaled(if self.0 >= 0 && rhs > 0 { (self.0 / rhs) as i32 } else { 0i32 }) }
}
impl std::ops::Div<i32> for Scaled {
    type Output = Scaled;
    fn div(self, rhs: i32) -> Self::Output {
        Scaled(self.0 / rhs)
    }
}

fn test(a: Scaled, b: Scaled) -> (r: Scaled)
    requires 0 <= a.0 <= 100, 0 <= b.0 <= 100
    ensures r.0 == (a.0 + b.0) / 7
{
    (a + b) / 7
}

} // verus!
fn main() {}
