use vstd::prelude::*;
use std::collections::HashMap;
use std::collections::hash_map::Entry;
use std::hash::Hash;
verus! {
broadcast use vstd::std_specs::hash::group_hash_axioms;

fn save<K: Eq + Hash, V>(m: &mut HashMap<K, V>, k: K, v: V) -> (r: Option<V>)
    requires vstd::std_specs::hash::obeys_key_model::<K>(),
    ensures
        old(m)@.contains_key(k) ==> final(m)@ == old(m)@ && r == Some(v),
        !old(m)@.contains_key(k) ==> final(m)@ == old(m)@.insert(k, v) && r is None,
{
    match m.entry(k) {
        Entry::Occupied(_) => Some(v),
        Entry::Vacant(vac) => {
            vac.insert(v);
            None
        }
    }
}

} // verus!
fn main() {}
