use vstd::prelude::*;
use std::collections::HashMap;
verus! {
broadcast use vstd::std_specs::hash::group_hash_axioms;

pub enum Scope { Local, Global }

pub struct SaveStackMap(pub HashMap<u64, i32>);
pub struct SaveStackElement { pub a: SaveStackMap, pub b: SaveStackMap }

#[verifier::external_body]
pub struct ExecutionInput { _p: u8 }

impl ExecutionInput {
    pub uninterp spec fn groups_view(&self) -> Seq<SaveStackElement>;

    #[verifier::external_body]
    pub fn groups(&mut self) -> (r: &mut [SaveStackElement])
        ensures r@ == old(self).groups_view(), final(self).groups_view() == final(r)@,
    { unimplemented!() }
}

impl SaveStackMap {
    fn remove(&mut self, variable: &u64) -> (r: Option<i32>) 
        ensures final(self).0@ == old(self).0@.remove(*variable)
    {
        self.0.remove(variable)
    }
}

fn update_save_stack<F>(
    input: &mut ExecutionInput,
    variable: &u64,
    scope: Scope,
    overwritten_value: i32,
    map_getter: F,
) where
    F: Fn(&mut SaveStackElement) -> &mut SaveStackMap,
{
    match scope {
        Scope::Global => {
            let n = input.groups().len();
            for _ in 0..n {
                let group = &mut input.groups()[0];
                if let Some(stale_value) = map_getter(group).remove(variable) {
                }
            }
        }
        Scope::Local => {
        }
    }
}

} // verus!
fn main() {}
