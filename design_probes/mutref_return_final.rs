use vstd::prelude::*;
verus! {

fn first_mut(v: &mut Vec<u32>) -> (r: &mut u32)
    requires old(v).len() > 0
    ensures *r == old(v)@[0], final(v)@ == old(v)@.update(0, *final(r))
{
    &mut v[0]
}

fn test() {
    let mut v: Vec<u32> = Vec::new();
    v.push(1); v.push(2);
    let r = first_mut(&mut v);
    *r = 5;
    assert(v@[0] == 5);
    assert(v@[1] == 2);
}

} // verus!
fn main() {}
