use vstd::prelude::*;
use std::collections::HashMap;
use std::collections::hash_map::Entry;
use std::hash::Hash;
verus! {
broadcast use vstd::std_specs::hash::group_hash_axioms;

pub trait BackingContainer<K, V>: Default {
    spec fn bview(&self) -> Map<K, V>;

    fn insert(&mut self, k: K, v: V)
        ensures final(self).bview() == old(self).bview().insert(k, v);

    fn get_mut(&mut self, k: &K) -> (r: Option<&mut V>)
        ensures match r {
            Some(v) => old(self).bview().contains_key(*k) && *v == old(self).bview()[*k] && final(self).bview() == old(self).bview().insert(*k, *final(v)),
            None => !old(self).bview().contains_key(*k) && final(self).bview() == old(self).bview(),
        };

    fn remove(&mut self, k: &K)
        ensures final(self).bview() == old(self).bview().remove(*k);
}

pub enum Scope { Local, Global }

pub enum EndOfGroupAction<V> {
    Revert(V),
    Delete,
}

pub struct GroupingContainer<K, V, T> {
    pub backing_container: T,
    pub groups: Vec<HashMap<K, EndOfGroupAction<V>>>,
}

impl<K: Eq + Hash + Clone, V, T: BackingContainer<K, V>> GroupingContainer<K, V, T> {
    pub open spec fn gview(&self) -> Seq<Map<K, EndOfGroupAction<V>>> {
        Seq::new(self.groups@.len(), |i: int| self.groups@[i]@)
    }

    pub fn insert(&mut self, key: K, mut val: V, scope: Scope) -> (r: bool)
        requires vstd::std_specs::hash::obeys_key_model::<K>(),
            forall|i: int, k: K| 0 <= i < old(self).gview().len() && #[trigger] old(self).gview()[i].contains_key(k) ==> old(self).backing_container.bview().contains_key(k),
        ensures
            final(self).backing_container.bview() == old(self).backing_container.bview().insert(key, val),
            r == old(self).backing_container.bview().contains_key(key),
            final(self).gview().len() == old(self).gview().len(),
            scope is Local && old(self).gview().len() > 0 ==> {
                let n = old(self).gview().len() as int;
                let og = old(self).gview()[n - 1];
                let ob = old(self).backing_container.bview();
                &&& forall|i: int| 0 <= i < n - 1 ==> #[trigger] final(self).gview()[i] == old(self).gview()[i]
                &&& og.contains_key(key) ==> final(self).gview()[n - 1] == og
                &&& !og.contains_key(key) && ob.contains_key(key) ==> final(self).gview()[n - 1] == og.insert(key, EndOfGroupAction::Revert(ob[key]))
                &&& !og.contains_key(key) && !ob.contains_key(key) ==> final(self).gview()[n - 1] == og.insert(key, EndOfGroupAction::Delete)
            },
            scope is Global ==> forall|i: int| 0 <= i < old(self).gview().len() ==> #[trigger] final(self).gview()[i] == old(self).gview()[i].remove(key),
    {
        let group = match scope {
            Scope::Local => self.groups.last_mut(),
            Scope::Global => {
                let mut i = 0;
                while i < self.groups.len() 
                    invariant 
                        vstd::std_specs::hash::obeys_key_model::<K>(),
                        i <= self.groups.len(), self.groups.len() == old(self).groups.len(),
                        self.backing_container == old(self).backing_container,
                        forall|j: int| 0 <= j < i ==> #[trigger] self.groups@[j]@ == old(self).groups@[j]@.remove(key),
                        forall|j: int| i <= j < self.groups.len() ==> #[trigger] self.groups@[j]@ == old(self).groups@[j]@,
                    decreases self.groups.len() - i
                {
                    let group = &mut self.groups[i];
                    group.remove(&key);
                    i += 1;
                }
                None
            }
        };
        match (self.backing_container.get_mut(&key), group) {
            (None, None) => {
                self.backing_container.insert(key, val);
                false
            }
            (None, Some(group)) => {
                group.insert(key.clone(), EndOfGroupAction::Delete);
                self.backing_container.insert(key, val);
                false
            }
            (Some(val_ref), None) => {
                *val_ref = val;
                true
            }
            (Some(val_ref), Some(group)) => {
                std::mem::swap(&mut val, val_ref);
                if let Entry::Vacant(vac) = group.entry(key) {
                    vac.insert(EndOfGroupAction::Revert(val));
                };
                true
            }
        }
    }
    pub fn begin_group(&mut self) 
        ensures final(self).gview() == old(self).gview().push(Map::empty()),
           final(self).backing_container == old(self).backing_container,
    {
        self.groups.push(HashMap::new());
    }
}

} // verus!
fn main() {}
