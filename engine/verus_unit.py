"""Assemble a Verus unit from /repo's working tree, run verus on it, classify the outcome."""
import json
import os
import re
import subprocess
import time

import weave

VERIF = os.path.dirname(os.path.dirname(os.path.abspath(__file__)))
BUILD = os.environ.get("VERIF_BUILD", os.path.join(VERIF, ".build"))

# Messages that mean "an obligation could not be discharged" (as opposed to compile / mode /
# unsupported-feature errors, which make the unit UNDECIDED).
VERIF_FAIL_PATTERNS = [
    (r"^postcondition not satisfied", "postcondition"),
    (r"^precondition not satisfied", "precondition"),
    (r"^assertion failed", "assertion"),
    (r"^assert_by_compute", "assertion"),
    (r"^invariant not satisfied before loop", "invariant-init"),
    (r"^invariant not satisfied at end of loop body", "invariant-preserve"),
    (r"^loop invariant not", "invariant"),
    (r"^possible arithmetic underflow/overflow", "overflow"),
    (r"^possible division by zero", "div-by-zero"),
    (r"^possible bit shift", "shift"),
    (r"^decreases not satisfied", "termination"),
    (r"^could not prove termination", "termination"),
    (r"^index out of bounds", "bounds"),
    (r"^constructed value may fail to meet its declared type invariant", "type-invariant"),
    (r"^unable to prove assertion safety", "atomic"),
    (r"^cannot show .* in bounds", "bounds"),
    (r"^recommendation not met", None),  # note only
]
RLIMIT_PAT = re.compile(r"Resource limit \(rlimit\) exceeded|rlimit exceeded|resource limit", re.I)

TRUST_RX = re.compile(
    r"external_body|assume_specification|uninterp\b|\bassume\s*\(|\badmit\s*\(|external_fn_specification|"
    r"verifier::external\b|external_type_specification|verifier::external_trait|#\[verifier::trusted\]|"
    r"verifier::exec_allows_no_decreases_clause|assume_termination|verifier::axiom")


class UnitResult:
    def __init__(self, unit):
        self.unit = unit
        self.status = "undecided"  # ok | fail | undecided
        self.reason = ""
        self.functions = []  # {function, success, time_us, rlimit, mode}
        self.verified = 0
        self.errors = 0
        self.failures = []  # dict(obligation, kind, message, item, repo, clause, rendered)
        self.items = []
        self.rewrites = []
        self.anchor_lost = []
        self.trusted = []
        self.solver_ms = 0
        self.wall_s = 0.0
        self.cmd = ""
        self.unstable = False
        self.canaries = []
        self.stderr_tail = ""
        self.file = ""

    def to_json(self):
        return {k: getattr(self, k) for k in (
            "unit", "status", "reason", "verified", "errors", "failures", "rewrites", "anchor_lost", "trusted",
            "solver_ms", "wall_s", "cmd", "unstable", "canaries", "file")}


def scan_trust(text):
    out = []
    for ln in text.split("\n"):
        if "TRUSTED" in ln or (TRUST_RX.search(ln) and not ln.strip().startswith("//")):
            out.append(re.sub(r"\s+", " ", ln.strip()))
    return out


def _run_verus(path, extra=(), timeout=900):
    cmd = ["verus", path, "--output-json", "--time", "--error-format=json", "--multiple-errors", "8",
           "--num-threads", os.environ.get("VERIF_VERUS_THREADS", "8")] + list(extra)
    t0 = time.time()
    try:
        p = subprocess.run(cmd, stdin=subprocess.DEVNULL, stdout=subprocess.PIPE, stderr=subprocess.PIPE, text=True, timeout=timeout,
                           cwd=os.path.dirname(path))
        out, err, rc = p.stdout, p.stderr, p.returncode
    except subprocess.TimeoutExpired as e:
        out = e.stdout.decode() if isinstance(e.stdout, bytes) else (e.stdout or "")
        err = (e.stderr.decode() if isinstance(e.stderr, bytes) else (e.stderr or "")) + "\nTIMEOUT"
        rc = -9
    return " ".join(cmd), out, err, rc, time.time() - t0


def _parse_json_out(out):
    # stdout holds one big JSON object (possibly preceded by other lines)
    i = out.find("{")
    if i < 0:
        return None
    try:
        return json.loads(out[i:])
    except Exception:
        # try line by line accumulate
        dec = json.JSONDecoder()
        try:
            obj, _ = dec.raw_decode(out[i:])
            return obj
        except Exception:
            return None


def _diagnostics(err):
    diags = []
    for ln in err.split("\n"):
        ln = ln.strip()
        if not ln.startswith("{"):
            continue
        try:
            d = json.loads(ln)
        except Exception:
            continue
        if d.get("$message_type") == "diagnostic" or "message" in d:
            diags.append(d)
    return diags


def _classify(msg):
    for pat, kind in VERIF_FAIL_PATTERNS:
        if re.search(pat, msg):
            return kind if kind else "note"
    return None


def _item_for_line(items, line):
    for it in items:
        if it["out_start"] <= line <= it["out_end"]:
            return it
    return None


def _span_text(sp):
    try:
        parts = []
        for t in sp.get("text", []):
            parts.append(t["text"][t["highlight_start"] - 1:t["highlight_end"] - 1])
        return re.sub(r"\s+", " ", " ".join(parts)).strip()
    except Exception:
        return ""


def _analyse(res, woven, fname, out, err, rc):
    j = _parse_json_out(out)
    diags = _diagnostics(err)
    res.stderr_tail = err[-4000:]
    failures = []
    tool_errors = []
    rlimit_hit = False
    base = os.path.basename(fname)
    for d in diags:
        lvl = d.get("level")
        msg = d.get("message", "")
        if lvl not in ("error",):
            if RLIMIT_PAT.search(msg):
                rlimit_hit = True
            continue
        if msg.startswith("aborting due to"):
            continue
        if RLIMIT_PAT.search(msg) or RLIMIT_PAT.search(d.get("rendered") or ""):
            rlimit_hit = True
            continue
        kind = _classify(msg)
        if kind is None:
            tool_errors.append(msg + " :: " + (d.get("rendered") or "")[:600])
            continue
        if kind == "note":
            continue
        spans = d.get("spans", [])
        in_unit = [sp for sp in spans if os.path.basename(sp.get("file_name", "")) == base]
        item = None
        site_line = None
        for sp in in_unit:
            it = _item_for_line(woven.items, sp["line_start"])
            if it is not None:
                item = it
                site_line = sp["line_start"]
                if not sp.get("is_primary"):
                    # prefer the code site (non-primary for post/precondition) – keep searching for fn body site
                    pass
        # clause text: primary span text, else label-bearing span
        clause = ""
        prim = [sp for sp in spans if sp.get("is_primary")]
        for sp in prim + spans:
            txt = _span_text(sp)
            if txt:
                clause = txt
                break
        site = ""
        for sp in spans:
            if not sp.get("is_primary") and os.path.basename(sp.get("file_name", "")) == base:
                site = _span_text(sp)
                break
        if kind in ("overflow", "div-by-zero", "assertion", "bounds", "shift"):
            site = ""
        failures.append({
            "kind": kind,
            "message": msg,
            "item": item["item"] if item else None,
            "repo": ("%s:%d" % (item["file"], item["repo_line"])) if item else None,
            "clause": clause[:300],
            "site": site[:200],
            "rendered": (d.get("rendered") or "")[:1500],
        })
    res.failures = failures
    if j is not None:
        vr = j.get("verification-results", {})
        res.verified = vr.get("verified", 0)
        res.errors = vr.get("errors", 0)
        fns = []
        try:
            for m in j["times-ms"]["smt"]["smt-run-module-times"]:
                for f in m.get("function-breakdown", []):
                    fns.append({"function": f.get("function"), "success": f.get("success"),
                                "time_us": f.get("time-micros"), "rlimit": f.get("rlimit"), "mode": f.get("mode:")})
            res.solver_ms = j["times-ms"]["smt"]["total"]
        except Exception:
            pass
        res.functions = fns
    if "TIMEOUT" in err[-20:]:
        return "undecided", "verus timed out"
    if tool_errors:
        return "undecided", "verus/rustc error (not a verification failure): " + tool_errors[0][:500]
    if j is None:
        return "undecided", "no JSON result from verus (rc=%s): %s" % (rc, err[-500:])
    if j.get("verification-results", {}).get("encountered-vir-error"):
        return "undecided", "VIR error: " + err[-600:]
    if rlimit_hit and not failures:
        return "rlimit", "resource limit exceeded"
    if failures:
        return "fail", "%d obligation(s) not discharged" % len(failures)
    if res.errors:
        return ("rlimit", "resource limit exceeded") if rlimit_hit else ("undecided", "verus reported errors without a classifiable diagnostic: " + err[-600:])
    if res.verified == 0:
        return "undecided", "zero obligations generated (vacuous unit)"
    if not j.get("verification-results", {}).get("success"):
        return "undecided", "verus did not report success"
    return "ok", ""


def obligation_id(unit, f):
    it = f["item"] or "<unit-prelude>"
    it = it.split(" :: ", 1)[1] if " :: " in it else it
    return "%s | %s | %s | %s" % (unit, it, f["kind"], f["clause"] or f["site"])


def run_unit(unit, canary=None, extra_args=(), tag=None):
    """canary: dict(name, find, replace) applied to the unit template text before assembly."""
    res = UnitResult(unit)
    udir = os.path.join(VERIF, "units", unit)
    src = os.path.join(udir, "unit.vrs")
    t0 = time.time()
    bdir = os.path.join(BUILD, unit + ("" if not tag else "." + tag))
    os.makedirs(bdir, exist_ok=True)
    try:
        if canary:
            woven = weave.assemble(src, canary)
        else:
            woven = weave.assemble(src)
    except weave.UnitError as e:
        res.reason = "extraction: %s" % e
        res.wall_s = time.time() - t0
        return res
    fname = os.path.join(bdir, unit.replace("-", "_") + ".rs")
    with open(fname, "w", encoding="utf-8") as f:
        f.write(woven.text)
    res.file = fname
    res.items = woven.items
    res.rewrites = woven.rewrites
    res.anchor_lost = woven.anchor_lost
    res.trusted = scan_trust(woven.text)
    cmd, out, err, rc, wall = _run_verus(fname, extra_args)
    res.cmd = cmd
    status, reason = _analyse(res, woven, fname, out, err, rc)
    if status in ("fail", "rlimit") and not canary:
        # retry: a proof found under any seed / larger rlimit is a proof; only persistent failures count
        first_failures = res.failures
        for extra in (["--rlimit", "40"], ["--rlimit", "40", "--smt-option", "smt.random_seed=7"],
                      ["--rlimit", "40", "--smt-option", "smt.random_seed=23"]):
            r2 = UnitResult(unit)
            cmd2, out2, err2, rc2, _ = _run_verus(fname, list(extra_args) + extra)
            st2, rs2 = _analyse(r2, woven, fname, out2, err2, rc2)
            if st2 == "ok":
                res.verified, res.errors, res.functions, res.failures = r2.verified, r2.errors, r2.functions, []
                res.solver_ms = r2.solver_ms
                res.unstable = True
                res.cmd = cmd2
                status, reason = "ok", "needed retry: " + " ".join(extra)
                break
            if status == "rlimit" and st2 == "fail":
                status, reason = st2, rs2
                res.failures = r2.failures
                first_failures = r2.failures
            if status == "fail" and st2 == "fail":
                # keep only failures that persist (by obligation id)
                ids2 = {obligation_id(unit, f) for f in r2.failures}
                keep = [f for f in first_failures if obligation_id(unit, f) in ids2]
                if keep:
                    first_failures = keep
        if status == "fail":
            res.failures = first_failures
        if status == "rlimit":
            status, reason = "undecided", "resource limit exceeded after retries"
    if status == "fail" and woven.anchor_lost and not canary:
        status, reason = "undecided", "hint anchor lost (%s) and proof then failed" % "; ".join(woven.anchor_lost)
    res.status = status
    res.reason = reason
    res.wall_s = time.time() - t0
    return res
