#!/usr/bin/env python3
"""dev helper: run selected harnesses of a kani group, each in its own process, print summary. usage: kani_dev.py group [timeout_s] h1 h2 ..."""
import sys, os, time, json
sys.path.insert(0, os.path.dirname(os.path.abspath(__file__)))
import kani_unit
g = sys.argv[1]
to = int(sys.argv[2])
names = sys.argv[3:]
grp = kani_unit.GROUPS[g]
grp["harnesses"] = [h for h in grp["harnesses"] if h["name"] in names] or [{"name": n, "class": "complete"} for n in names]
grp["jobs"] = len(grp["harnesses"])
grp["timeout_s"] = to
t = time.time()
r = kani_unit.run_group(g, "quick", 0)
print(r["status"], r["reason"], round(time.time() - t, 1))
for h in r["harnesses"]:
    print(h["name"], h["verdict"], h["checks_total"], h["checks_ok"], h["time_s"], [f["clause"][:160] for f in h["failures"]][:4])
