#!/usr/bin/env python3
"""developer helper: assemble + run one Verus unit, print human-readable diagnostics.
usage: dev.py <unit> [--keep] [verus args...]"""
import json
import os
import subprocess
import sys

sys.path.insert(0, os.path.dirname(os.path.abspath(__file__)))
import weave  # noqa
import verus_unit  # noqa


def main():
    unit = sys.argv[1]
    extra = sys.argv[2:]
    src = os.path.join(verus_unit.VERIF, "units", unit, "unit.vrs")
    try:
        w = weave.assemble(src)
    except weave.UnitError as e:
        print("UNIT ERROR:", e)
        sys.exit(2)
    bdir = os.path.join(verus_unit.BUILD, unit)
    os.makedirs(bdir, exist_ok=True)
    fname = os.path.join(bdir, unit.replace("-", "_") + ".rs")
    open(fname, "w").write(w.text)
    for a in w.anchor_lost:
        print("ANCHOR LOST:", a)
    cmd = ["verus", fname, "--multiple-errors", "8", "--time", "--output-json"] + extra
    p = subprocess.run(cmd, stdout=subprocess.PIPE, stderr=subprocess.PIPE, text=True)
    print(p.stderr[-12000:])
    try:
        j = json.loads(p.stdout[p.stdout.find("{"):])
        print(json.dumps(j["verification-results"]))
        for m in j["times-ms"]["smt"]["smt-run-module-times"]:
            for f in m.get("function-breakdown", []):
                if not f.get("success") or f.get("time", 0) > 1000:
                    print("  ", f["function"], "success=", f.get("success"), "ms=", f.get("time"), "rlimit=", f.get("rlimit"))
        print("total ms", j["times-ms"]["total"], "smt ms", j["times-ms"]["smt"]["total"])
    except Exception as e:
        print("no json:", e, p.stdout[-2000:])


main()
