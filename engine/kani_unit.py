"""Kani units: scratch-copy a crate from /repo's working tree, append a #[cfg(kani)] harness module to
its crate root (a child module sees private items), run `cargo kani`, parse per-check results, delete
the scratch copy together with its build output.

The copy drops nothing: it is the whole crate (plus its path dependencies).  The only edits are
  * `[lints] workspace = true` stripped from Cargo.toml (there is no workspace root in the copy),
  * one line appended to src/lib.rs:  #[cfg(kani)] mod verif_harness { include!("<abs path>"); }
  * optional contract attributes from group.json "inject" (#[cfg_attr(kani, kani::requires(..))] above a named fn).
"""
import json
import os
import re
import shutil
import subprocess
import tempfile
import time

VERIF = os.path.dirname(os.path.dirname(os.path.abspath(__file__)))
REPO = os.environ.get("VERIF_REPO", "/repo")
SCRATCH_ROOT = os.environ.get("VERIF_SCRATCH", "/var/tmp")


def _load_groups():
    groups = {}
    kdir = os.path.join(VERIF, "kani")
    if not os.path.isdir(kdir):
        return groups
    for d in sorted(os.listdir(kdir)):
        p = os.path.join(kdir, d, "group.json")
        if os.path.exists(p):
            with open(p) as f:
                g = json.load(f)
            g["dir"] = os.path.join(kdir, d)
            groups[d] = g
    return groups


GROUPS = _load_groups()


def write_lock(group, result):
    lock = {h["name"]: {"checks_total": h["checks_total"], "class": h["class"]} for h in result["harnesses"]}
    with open(os.path.join(GROUPS[group]["dir"], "lock.json"), "w") as f:
        json.dump(lock, f, indent=1)


def _prepare(group):
    g = GROUPS[group]
    scratch = tempfile.mkdtemp(prefix="verif-kani-%s-" % group, dir=SCRATCH_ROOT)
    for c in [g["crate"]] + g.get("path_deps", []):
        src = os.path.join(REPO, "crates", c)
        dst = os.path.join(scratch, "crates", c)
        shutil.copytree(src, dst, ignore=shutil.ignore_patterns("target", "fuzz", "corpus", "tests", "benches"))
        ct = os.path.join(dst, "Cargo.toml")
        with open(ct) as f:
            toml = f.read()
        toml = re.sub(r"\[lints\]\s*\nworkspace\s*=\s*true\s*\n?", "", toml)
        if c == g["crate"]:
            toml += "\n[workspace]\n\n[lints.rust]\nunexpected_cfgs = { level = \"allow\", check-cfg = ['cfg(kani)'] }\n"
        with open(ct, "w") as f:
            f.write(toml)
    cdir = os.path.join(scratch, "crates", g["crate"])
    shutil.copy(os.path.join(REPO, "Cargo.lock"), os.path.join(cdir, "Cargo.lock"))
    os.makedirs(os.path.join(cdir, ".cargo"), exist_ok=True)
    with open(os.path.join(cdir, ".cargo", "config.toml"), "w") as f:
        f.write("[net]\noffline = true\n")
    root = os.path.join(cdir, g.get("root", "src/lib.rs"))
    with open(root) as f:
        src = f.read()
    feats = "#![cfg_attr(kani, feature(stmt_expr_attributes, proc_macro_hygiene))]\n" if g.get("loop_contracts") else ""
    src = feats + src + "\n#[cfg(kani)]\nmod verif_harness { include!(\"%s\"); }\n" % os.path.join(g["dir"], "harness.rs")
    with open(root, "w") as f:
        f.write(src)
    # visibility-only substitutions (so the harness module can name private codec traits)
    for sub in g.get("subst", []):
        p = os.path.join(cdir, sub["file"])
        with open(p) as f:
            s_ = f.read()
        s2, n = re.subn(sub["regex"], sub["repl"], s_, count=1, flags=re.M)
        if n != 1:
            shutil.rmtree(scratch, ignore_errors=True)
            raise RuntimeError("subst anchor not found: %s in %s" % (sub["regex"], sub["file"]))
        with open(p, "w") as f:
            f.write(s2)
    # contract injection: insert attribute lines above `fn name` in a named file
    for inj in g.get("inject", []):
        p = os.path.join(cdir, inj["file"])
        with open(p) as f:
            s = f.read()
        m = re.search(inj["before_regex"], s, re.M)
        if not m:
            shutil.rmtree(scratch, ignore_errors=True)
            raise RuntimeError("inject anchor not found: %s" % inj["before_regex"])
        s = s[:m.start()] + inj["text"] + "\n" + s[m.start():]
        with open(p, "w") as f:
            f.write(s)
    return scratch, cdir


_check_re = re.compile(r"^Check (\d+): (.+?)\s*\n\s*- Status: (\w+)\s*\n\s*- Description: \"(.*)\"\s*\n\s*- Location: (.*)$", re.M)


def _parse(output, names):
    """split output per harness"""
    res = {}
    parts = re.split(r"^Checking harness ([\w:]+)\.\.\.\s*$", output, flags=re.M)
    # parts: [pre, name1, body1, name2, body2...]
    for i in range(1, len(parts) - 1, 2):
        name = parts[i].split("::")[-1]
        body = parts[i + 1]
        checks = _check_re.findall(body)
        total = len(checks)
        ok = len([c for c in checks if c[2] == "SUCCESS"])
        fails = [c for c in checks if c[2] == "FAILURE"]
        undet = [c for c in checks if c[2] not in ("SUCCESS", "FAILURE", "UNREACHABLE", "SATISFIED", "UNSATISFIABLE")]
        unreachable = len([c for c in checks if c[2] == "UNREACHABLE"])
        covers_sat = len([c for c in checks if c[2] == "SATISFIED"])
        covers_unsat = [c for c in checks if c[2] == "UNSATISFIABLE"]
        verdict = None
        m = re.search(r"VERIFICATION:- (\w+)", body)
        if m:
            verdict = m.group(1)
        m2 = re.search(r"Verification Time: ([\d.]+)s", body)
        # concrete playback values
        cp = re.findall(r"^\s*//\s*(\d.*)$|^\s*vec!\[([^\]]*)\]", body, re.M)
        res[name] = {"total": total, "ok": ok + unreachable + covers_sat, "fails": fails, "undet": undet, "verdict": verdict,
                     "covers_unsat": covers_unsat, "time_s": float(m2.group(1)) if m2 else None, "body_tail": body[-3000:],
                     "playback": _playback(body)}
    return res


def _playback(body):
    m = re.search(r"Concrete playback unit test for `[^`]*`:\s*\n```\n(.*?)```", body, re.S)
    return m.group(1)[:3000] if m else None


def run_group(group, tier="quick", seed=0):
    g = GROUPS.get(group)
    out = {"group": group, "status": "undecided", "reason": "", "harnesses": [], "trusted": [], "wall_s": 0.0}
    if g is None:
        out["reason"] = "unknown kani group"
        return out
    t0 = time.time()
    wanted = [h for h in g["harnesses"] if h.get("tier", "quick") != "disabled" and (tier == "thorough" or h.get("tier", "quick") == "quick")]
    try:
        scratch, cdir = _prepare(group)
    except Exception as e:
        out["reason"] = "scratch copy failed: %s" % e
        return out
    try:
        with open(os.path.join(g["dir"], "harness.rs")) as f:
            htxt = f.read()
        out["trusted"] = sorted(set(re.sub(r"\s+", " ", ln.strip()) for ln in htxt.split("\n")
                                    if re.search(r"kani::assume|kani::stub|TRUSTED", ln)))
        base = ["cargo", "kani", "-Z", "function-contracts", "-Z", "stubbing", "--output-format", "regular"]
        if g.get("loop_contracts"):
            base += ["-Z", "loop-contracts"]
        base += g.get("extra_args", [])
        # `cargo kani -j` only exists with terse output (no per-check results), so parallelism is done here:
        # the harnesses are dealt round-robin to `jobs` cargo-kani processes, each with its own target dir.
        jobs = max(1, min(int(g.get("jobs", 8)), len(wanted)))
        buckets = [[] for _ in range(jobs)]
        for i, h in enumerate(sorted(wanted, key=lambda h: -h.get("cost", 1))):
            buckets[i % jobs].append(h)
        out["cmd"] = "(scratch copy of crates/%s, %d parallel processes) " % (g["crate"], jobs) + " ".join(base) + " --harness <each>"
        timeout = g.get("timeout_s", 1500) * (3 if tier == "thorough" else 1)

        def run_bucket(bi):
            cmd = list(base)
            for h in buckets[bi]:
                cmd += ["--harness", h["name"]]
            env = dict(os.environ)
            env["CARGO_NET_OFFLINE"] = "true"
            env["CARGO_TARGET_DIR"] = os.path.join(scratch, "target%d" % bi)
            try:
                p = subprocess.run(cmd, cwd=cdir, stdin=subprocess.DEVNULL, stdout=subprocess.PIPE, stderr=subprocess.STDOUT, text=True,
                                   timeout=timeout, env=env)
                return p.stdout, p.returncode
            except subprocess.TimeoutExpired as e:
                return (e.stdout.decode() if isinstance(e.stdout, bytes) else (e.stdout or "")) + "\nTIMEOUT", -9

        import concurrent.futures as cf
        with cf.ThreadPoolExecutor(max_workers=jobs) as ex:
            outs = list(ex.map(run_bucket, range(jobs)))
        text = "\n".join(o for o, _ in outs)
        rc = -9 if any(r == -9 for _, r in outs) else max(r for _, r in outs)
        bdir = os.environ.get("VERIF_BUILD", os.path.join(VERIF, ".build"))
        os.makedirs(os.path.join(bdir, "kani"), exist_ok=True)
        with open(os.path.join(bdir, "kani", group + ".log"), "w") as f:
            f.write(text)
        parsed = _parse(text, [h["name"] for h in wanted])
        if rc == -9:
            out["reason"] = "kani timed out after %ds" % timeout
        if "error: could not compile" in text or "error[E" in text:
            out["reason"] = "harness crate failed to compile: " + "\n".join(
                l for l in text.split("\n") if l.startswith("error"))[:800]
            return out
        lock = {}
        lp = os.path.join(g["dir"], "lock.json")
        if os.path.exists(lp):
            with open(lp) as f:
                lock = json.load(f)
        all_present = True
        for h in wanted:
            r = parsed.get(h["name"])
            if r is None or r["verdict"] is None:
                all_present = False
                out["reason"] = out["reason"] or ("no result for harness %s" % h["name"])
                continue
            fails = []
            for c in r["fails"]:
                fails.append({"clause": "%s: %s" % (c[1], c[3]), "location": c[4].strip(),
                              "rendered": "Check %s: %s\n - Status: %s\n - Description: \"%s\"\n - Location: %s" % c,
                              "input": r["playback"]})
            # unwinding assertion failure means the bound was too small: that is not a violation of the code
            real_fails = [f for f in fails if "unwinding assertion" not in f["clause"]]
            unwind_fails = [f for f in fails if "unwinding assertion" in f["clause"]]
            hres = {"name": h["name"], "class": h.get("class", "complete"), "bound": h.get("bound"),
                    "checks_total": r["total"], "checks_ok": r["ok"], "failures": real_fails,
                    "verdict": r["verdict"], "time_s": r["time_s"], "covers_list": h.get("covers", []),
                    "covers": ", ".join(h.get("covers", [])),
                    "sample": {"harness": h["name"], "class": h.get("class", "complete"), "checks": r["total"],
                               "what": h.get("what", "")}}
            out["harnesses"].append(hres)
            if unwind_fails:
                all_present = False
                out["reason"] = "harness %s: unwinding assertion failed (bound too small)" % h["name"]
            if r["undet"]:
                all_present = False
                out["reason"] = "harness %s: %d undetermined checks" % (h["name"], len(r["undet"]))
            if r["covers_unsat"]:
                all_present = False
                out["reason"] = "harness %s: cover unsatisfiable (vacuous assumption): %s" % (h["name"], r["covers_unsat"][0][3])
            if r["total"] == 0:
                all_present = False
                out["reason"] = "harness %s generated zero checks" % h["name"]
            lk = lock.get(h["name"])
            if lk and r["total"] < lk["checks_total"] * 0.5:
                all_present = False
                out["reason"] = "harness %s: number of checks collapsed (%d, lock %d)" % (h["name"], r["total"], lk["checks_total"])
        out["harness_summary"] = [{"name": h["name"], "class": h["class"], "verdict": h["verdict"], "checks": h["checks_total"],
                                   "time_s": h["time_s"], "bound": h.get("bound")} for h in out["harnesses"]]
        if all_present:
            out["status"] = "fail" if any(h["failures"] for h in out["harnesses"]) else "ok"
        else:
            # failures found are still facts even if some other harness is undecided
            out["status"] = "undecided"
        return out
    finally:
        shutil.rmtree(scratch, ignore_errors=True)
        out["wall_s"] = time.time() - t0
