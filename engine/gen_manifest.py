#!/usr/bin/env python3
"""Writes MANIFEST.json from engine/registry.py + engine/manifest_text.py (kept in code so it cannot drift)."""
import json, os, sys
sys.path.insert(0, os.path.dirname(os.path.abspath(__file__)))
import registry
import manifest_text as mt

checks = []
for pid in sorted(registry.PROPS):
    t = mt.CHECKS[pid]
    checks.append({
        "property_id": pid,
        "quick_cmd": "./check %s --tier quick" % pid,
        "thorough_cmd": "./check %s --tier thorough" % pid,
        "evidence_file": "/verif/evidence/%s.json" % pid,
        "replay_cmd_template": "./check %s --replay {path}" % pid,
        "engine": "contracts",
        "level_claimed": {"category": registry.PROPS[pid].get("level", "proof"), "text": t["text"], "design_ref": t["design_ref"]},
        "level_note": t["note"],
        "technique": t["technique"],
    })
na = [{"property_id": k, "reason": v} for k, v in sorted(mt.NOT_APPLICABLE.items()) if k not in registry.PROPS]
m = {
    "version": 1,
    "setup_cmd": "python3 -m compileall -q engine >/dev/null && test -x ./check",
    "hooks": {
        "guard": "none - /repo carries no hook code: contracts are woven into per-run extracts of the real functions (Verus) or appended to a scratch copy of the crate as a #[cfg(kani)] module (Kani)",
        "enable": "nothing to enable; checks read /repo's working tree directly",
        "baseline_off_cmd": "cd /repo && cargo test --workspace --no-fail-fast --offline",
        "source_commits": [],
        "add_only": True,
    },
    "engines": [{"name": "contracts", "path": "/verif/check", "serves_properties": sorted(registry.PROPS),
                 "kind_free_text": "contract-based deductive verification: Verus (requires/ensures/invariants woven into functions extracted verbatim from /repo each run) and Kani/CBMC (loop-free or fully unwound harnesses over full-domain symbolic operands on a scratch copy of the real crate)"}],
    "checks": checks,
    "notes": mt.NOTES,
    "not_applicable": na,
}
json.dump(m, open(os.path.join(os.path.dirname(os.path.dirname(os.path.abspath(__file__))), "MANIFEST.json"), "w"), indent=1)
print("MANIFEST.json written: %d checks, %d not_applicable" % (len(checks), len(na)))
