"""Concrete-input search for a failed Verus obligation (Verus gives no counterexample).

A unit may ship `units/<unit>/witness/` - a small cargo project linked against the real crate in /repo
(path dependency) whose `main` evaluates an executable mirror of the unit's top-level postconditions on a
boundary lattice and prints one JSON line `{"fn":..., "input":..., "observed":..., "expected":...}` for the
first input where the real function falsifies the contract or panics.  The search never decides: a failed
obligation is reported whether or not an input is found.
"""
import json
import os
import shutil
import subprocess
import tempfile

VERIF = os.path.dirname(os.path.dirname(os.path.abspath(__file__)))
REPO = os.environ.get("VERIF_REPO", "/repo")


def search(prop, violation):
    unit = violation.get("unit")
    wdir = os.path.join(VERIF, "units", unit, "witness")
    if not os.path.isdir(wdir):
        return None
    scratch = tempfile.mkdtemp(prefix="verif-witness-", dir=os.environ.get("VERIF_SCRATCH", "/var/tmp"))
    try:
        dst = os.path.join(scratch, "w")
        shutil.copytree(wdir, dst)
        shutil.copy(os.path.join(REPO, "Cargo.lock"), os.path.join(dst, "Cargo.lock"))
        env = dict(os.environ)
        env["CARGO_NET_OFFLINE"] = "true"
        env["CARGO_TARGET_DIR"] = os.path.join(scratch, "target")
        item = (violation.get("item") or "").split(" :: ")[-1].replace("fn ", "")
        p = subprocess.run(["cargo", "run", "--offline", "-q", "--", item], cwd=dst, env=env, stdout=subprocess.PIPE,
                           stderr=subprocess.PIPE, text=True, timeout=600)
        for ln in p.stdout.split("\n"):
            ln = ln.strip()
            if ln.startswith("{"):
                try:
                    j = json.loads(ln)
                except Exception:
                    continue
                return {"input": j, "source": "boundary-lattice search against the real crate (units/%s/witness)" % unit}
        return None
    finally:
        shutil.rmtree(scratch, ignore_errors=True)
