"""Concrete-input search against the REAL code for a unit whose Verus run failed or was undecided.

Verus gives no counterexample, and a code edit can break the proof SCRIPT (a renamed loop, a lost anchor) rather than
the property.  Each unit may therefore ship `units/<unit>/witness.rs`: test functions that evaluate an executable
mirror of the unit's top-level postconditions (written from the contract, over i128 / small models) on a boundary
lattice or an exhaustively enumerated small domain, against the real functions.  The file is appended, as
`#[cfg(test)] mod verif_witness { include!(..) }`, to a scratch copy of the crate (so private functions are reachable)
and run with `cargo test`.  A line `WITNESS {json}` printed by it is a concrete failing input: a fact about the code,
reported as a violation whatever the state of the proof.  Finding nothing decides nothing.
"""
import json
import os
import re
import shutil
import subprocess
import tempfile

VERIF = os.path.dirname(os.path.dirname(os.path.abspath(__file__)))
REPO = os.environ.get("VERIF_REPO", "/repo")
SCRATCH_ROOT = os.environ.get("VERIF_SCRATCH", "/var/tmp")


def _meta(unit):
    p = os.path.join(VERIF, "units", unit, "witness.json")
    if not os.path.exists(p):
        return None
    with open(p) as f:
        return json.load(f)


def available(unit):
    return _meta(unit) is not None


def run(unit, only=None, timeout=1500):
    """returns (list of witness dicts, info string)"""
    m = _meta(unit)
    if m is None:
        return [], "no witness driver for unit %s" % unit
    scratch = tempfile.mkdtemp(prefix="verif-witness-%s-" % unit, dir=SCRATCH_ROOT)
    try:
        # copy the workspace (sources only)
        def ign(d, names):
            return [n for n in names if n in ("target", ".git")]
        ws = os.path.join(scratch, "ws")
        shutil.copytree(REPO, ws, ignore=ign)
        root = os.path.join(ws, "crates", m["crate_dir"], m.get("root", "src/lib.rs"))
        with open(root, "a") as f:
            f.write("\n#[cfg(test)]\nmod verif_witness { include!(\"%s\"); }\n" % os.path.join(VERIF, "units", m.get("driver_unit", unit), "witness.rs"))
        env = dict(os.environ)
        env["CARGO_NET_OFFLINE"] = "true"
        # Build cache, outside /repo and /verif, KEYED BY THE CONTENT of the copied sources: cargo decides freshness by
        # mtime, and a scratch copy of an older tree has older mtimes than artifacts built from a newer (e.g. patched)
        # tree - sharing one target dir across different source states silently reuses stale objects.
        import hashlib
        h = hashlib.sha1()
        for dp, dn, fn in sorted(os.walk(os.path.join(ws, "crates"))):
            dn.sort()
            for f in sorted(fn):
                if f.endswith((".rs", ".toml")):
                    fp = os.path.join(dp, f)
                    h.update(os.path.relpath(fp, ws).encode())
                    with open(fp, "rb") as fh:
                        h.update(fh.read())
        with open(os.path.join(ws, "Cargo.lock"), "rb") as fh:
            h.update(fh.read())
        cache_root = os.path.join(SCRATCH_ROOT, "verif-witness-cache")
        os.makedirs(cache_root, exist_ok=True)
        key = h.hexdigest()[:16]
        tdir = os.path.join(cache_root, key)
        # keep at most 8 cached trees, and never remove one that was used in the last three hours: checks of different
        # properties may run at the same time and a tree that is being built must not disappear under its builder
        import time as _t
        olds = sorted((d for d in os.listdir(cache_root) if d != key), key=lambda d: os.path.getmtime(os.path.join(cache_root, d)))
        for d in olds[:-7]:
            if _t.time() - os.path.getmtime(os.path.join(cache_root, d)) > 3 * 3600:
                shutil.rmtree(os.path.join(cache_root, d), ignore_errors=True)
        os.makedirs(tdir, exist_ok=True)
        os.utime(tdir, None)
        env["CARGO_TARGET_DIR"] = tdir
        env["RUSTFLAGS"] = "-Awarnings"
        cmd = ["cargo", "test", "--offline", "-q", "-p", m["package"], "--lib"] + m.get("cargo_args", []) + ["verif_witness", "--", "--nocapture", "--test-threads", "8"]
        if only:
            cmd[cmd.index("verif_witness")] = "verif_witness::" + only
        try:
            p = subprocess.run(cmd, cwd=ws, env=env, stdin=subprocess.DEVNULL, stdout=subprocess.PIPE, stderr=subprocess.STDOUT, text=True, timeout=timeout)
            out = p.stdout
        except subprocess.TimeoutExpired as e:
            out = (e.stdout.decode() if isinstance(e.stdout, bytes) else (e.stdout or "")) + "\nTIMEOUT"
        ws_found = []
        for ln in out.split("\n"):
            i = ln.find("WITNESS {")
            if i >= 0:
                raw = ln[i + len("WITNESS "):]
                try:
                    ws_found.append(json.loads(raw))
                except Exception:
                    # a failing input whose description is not valid JSON is STILL a failing input
                    mfn = re.search(r'"fn":\s*"([^"]+)"', raw)
                    ws_found.append({"fn": mfn.group(1) if mfn else "?", "observed": raw[:400], "unparsed": True})
        stats = []
        for ln in out.split("\n"):
            i = ln.find("STATS {")
            if i >= 0:
                try:
                    stats.append(json.loads(ln[i + len("STATS "):]))
                except Exception:
                    pass
        ran = re.search(r"running (\d+) tests?", out)
        info = "witness driver ran %s test fn(s); %d failing input(s)" % (ran.group(1) if ran else "?", len(ws_found))
        if stats:
            info += "; " + json.dumps(stats)
        # where the caught panics happened (drivers print `PANICLOC <message>` from their panic hook)
        plocs = []
        for ln in out.split("\n"):
            i = ln.find("PANICLOC ")
            if i >= 0 and ln[i + 9:] not in plocs:
                plocs.append(ln[i + 9:])
        if plocs and ws_found:
            info += "; panic messages: " + json.dumps(plocs[:5])
        if re.search(r"test result: FAILED|[1-9]\d* failed;", out) and not ws_found:
            info = "witness driver did not compile against the current tree or its own test failed: " + out[-400:]
        if "error: could not compile" in out or "error[E" in out:
            info = "witness driver did not compile against the current tree: " + "\n".join(l for l in out.split("\n") if l.startswith("error"))[:400]
        return ws_found, info
    finally:
        shutil.rmtree(scratch, ignore_errors=True)


def search(prop, violation):
    unit = violation.get("unit")
    if not available(unit):
        return None
    fn = (violation.get("item") or "").split(" :: ")[-1].replace("fn ", "").strip()
    found, info = run(unit)
    for w in found:
        if fn and w.get("fn") == fn:
            return {"input": w, "source": "units/%s/witness.rs against the real crate" % unit, "info": info}
    if found:
        return {"input": found[0], "source": "units/%s/witness.rs against the real crate" % unit, "info": info}
    return None
