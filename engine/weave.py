"""Unit assembler: takes units/<unit>/unit.vrs (a Verus file with //@ directives), pulls the named
items verbatim out of /repo's working tree and weaves contract text into them.

Directive grammar (each directive on its own line, starting at column 0 or after blanks):

  //@item <repo-relative file> :: <path component> :: <path component> ...
  //@opt key=value ...            ret=<name> (name the return value)   vis=pub|keep|none
                                  derive=A,B (allow-list for #[derive])  pubfields=1
                                  mode=<text put in front of fn, e.g. "" >
  //@rewrite <RULE> `<exact source text>` => `<replacement>`     (logged; text must be found)
  //@spec                        following lines: requires/ensures/decreases, woven after signature
  //@loop <n>                    following lines: invariant/decreases for the n-th loop (source order)
  //@hint <pos>                  pos: entry | loop<n>.top | loop<n>.bottom | before `<text>` | after `<text>`
  //@end

Anything outside an //@item ... //@end block is copied through unchanged (that is the trusted /
spec text of the unit and is what scan_trust looks at).
"""
import hashlib
import os
import re

from rsitems import tokenize, find_item, match_close, ItemNotFound, norm

REPO = os.environ.get("VERIF_REPO", "/repo")


class UnitError(Exception):
    """extraction / weaving failed: undecided, never a violation"""


class Woven:
    def __init__(self):
        self.items = []  # dicts: name, file, repo_line, sha1, out_start, out_end, clauses[{kind,label,line,text}]
        self.rewrites = []
        self.anchor_lost = []
        self.text = ""


_file_cache = {}


def _load(rel):
    p = os.path.join(REPO, rel)
    if p not in _file_cache:
        with open(p, encoding="utf-8") as f:
            src = f.read()
        _file_cache[p] = (src, tokenize(src))
    return _file_cache[p]


def _split_ticks(s):
    """parse  `a` => `b`   (backtick quoted, may contain anything but backticks)"""
    m = re.match(r"\s*`([^`]*)`\s*=>\s*`([^`]*)`\s*$", s, re.S)
    if not m:
        raise UnitError("bad rewrite syntax: %r" % s)
    return m.group(1), m.group(2)


def _ws_flexible(pattern_text):
    """regex that matches pattern_text with arbitrary whitespace between tokens"""
    parts = [re.escape(t.text) for t in tokenize(pattern_text) if t.kind not in ("ws", "comment", "doc")]
    return r"\s*".join(parts)


# ---------------------------------------------------------------------------------------------------------------
# Pattern-based rewrite rules (syntax-directed, applied to every occurrence inside the extracted item; zero
# occurrences is fine - a rule is a statement about a syntactic FORM Verus cannot take, not about particular text,
# so an edit of the code never makes a rule "not found").  Each application is logged.
IDENT = r"[A-Za-z_][A-Za-z0-9_]*"


def _rule_R1(text, args):
    # x /= e;  ->  x = x / (e);      x %= e; likewise   (Verus: compound div/mod on signed ints unsupported)
    rx = re.compile(r"(?P<lhs>" + IDENT + r"(?:\s*\.\s*(?:" + IDENT + r"|\d+))*)\s*(?P<op>[/%])=\s*(?P<rhs>[^;{}]+);")
    return rx.subn(lambda m: "%s = %s %s (%s);" % (m.group("lhs"), m.group("lhs"), m.group("op"), m.group("rhs").strip()), text)


def _rule_R4(text, args):
    # for p in &mut E {   ->   index loop header; body verbatim (not applicable if the body `continue`s: checked by Verus
    # through the invariant at continue)
    name = args[0] if args else "vi__"
    rx = re.compile(r"for\s+(?P<pat>" + IDENT + r")\s+in\s+&mut\s+(?P<e>[^{]+?)\s*\{")
    return rx.subn(lambda m: "let mut %s: usize = 0; while %s < (%s).len() /*@loophead*/ { %s += 1; let %s = &mut (%s)[%s - 1];" % (
        name, name, m.group("e"), name, m.group("pat"), m.group("e"), name), text)


def _rule_R4rev(text, args):
    name = args[0] if args else "ri__"
    rx = re.compile(r"for\s+(?P<pat>" + IDENT + r")\s+in\s+(?P<e>" + IDENT + r"(?:\." + IDENT + r")*)\.iter\(\)\.rev\(\)\s*\{")
    return rx.subn(lambda m: "let mut %s: usize = (%s).len(); while %s > 0 /*@loophead*/ { %s -= 1; let %s = &(%s)[%s];" % (
        name, m.group("e"), name, name, m.group("pat"), m.group("e"), name), text)


def _rule_R11(text, args):
    # for p in a..b {  ->  for p in it: a..b {     (names Verus's ghost iterator so invariants can mention it)
    name = args[0] if args else "it"
    rx = re.compile(r"for\s+(?P<pat>_|" + IDENT + r")\s+in\s+(?P<r>[^{:]*?\.\.[^{]*?)\s*\{")
    return rx.subn(lambda m: "for %s in %s: %s /*@loophead*/ {" % (m.group("pat"), name, m.group("r")), text)


def _rule_R8(text, args):
    # let mut x = <integer literal>;  ->  let mut x: T = <literal>;   args: x:T ...
    n = 0
    for a in args:
        var, _, ty = a.partition(":")
        rx = re.compile(r"let\s+mut\s+" + re.escape(var) + r"\s*=\s*(?P<v>-?[0-9][0-9_a-zA-Z]*)\s*;")
        text, k = rx.subn(lambda m: "let mut %s: %s = %s;" % (var, ty, m.group("v")), text)
        n += k
    return text, n


def _rule_R7(text, args):
    # debug_assert!(e) / assert!(e) are kept as obligations: vassert(e) has `requires e`
    rx = re.compile(r"\b(debug_assert|assert)!\s*\(")
    return rx.subn("vassert(", text)


def _rule_R9(text, args):
    # for (k, v) in m.into_iter() {  ->  take-any-until-empty loop over a trusted stub (consuming HashMap iteration)
    # with arguments: the same for `for (k, v) in ARG {` where ARG (e.g. self.0) is a HashMap consumed by value
    rx = re.compile(r"for\s+\(\s*(?P<k>" + IDENT + r")\s*,\s*(?P<v>" + IDENT + r")\s*\)\s+in\s+(?P<m>" + IDENT + r")\.into_iter\(\)\s*\{")
    text, n = rx.subn(lambda m: "let mut %s = %s; while let Some((%s, %s)) = vstub_take_any(&mut %s) /*@loophead*/ {" % (
        m.group("m"), m.group("m"), m.group("k"), m.group("v"), m.group("m")), text)
    for a in args:
        rx2 = re.compile(r"for\s+\(\s*(?P<k>" + IDENT + r")\s*,\s*(?P<v>" + IDENT + r")\s*\)\s+in\s+" + re.escape(a) + r"\s*\{")
        text, k = rx2.subn(lambda m: "let mut vmap__ = %s; while let Some((%s, %s)) = vstub_take_any(&mut vmap__) /*@loophead*/ {" % (
            a, m.group("k"), m.group("v")), text)
        n += k
    return text, n


def _rule_R12(text, args):
    # let [a, b, c] = E;  ->  let arr__ = E; let a = arr__[0]; ...   (Verus: slice/array patterns unsupported)
    rx = re.compile(r"let\s+\[(?P<names>[^\]]+)\]\s*=\s*(?P<e>[^;]+);")
    cnt = [0]

    def rep(m):
        cnt[0] += 1
        names = [x.strip() for x in m.group("names").split(",")]
        arr = "arr__%d" % cnt[0]
        return "let %s = %s; " % (arr, m.group("e").strip()) + " ".join("let %s = %s[%d];" % (nm, arr, i) for i, nm in enumerate(names))
    return rx.subn(rep, text)


def _rule_R13(text, args):
    # E.to_be_bytes() on an i32  ->  vstub_i32_to_be_bytes(E)  (trusted wrapper: assume_specification cannot name the
    # const-generic return type)
    ty = args[0] if args else "i32"
    rx = re.compile(r"(?P<e>" + IDENT + r"(?:\s*\.\s*(?:" + IDENT + r"|\d+))*)\s*\.\s*to_be_bytes\(\)")
    return rx.subn(lambda m: "vstub_%s_to_be_bytes(%s)" % (ty, m.group("e")), text)


def _rule_R14(text, args):
    # for t in &E[..n] {   ->   for vi in it: 0..n { let t = &E[vi];     (Verus: iteration over a sub-slice unsupported)
    rx = re.compile(r"for\s+(?P<pat>" + IDENT + r")\s+in\s+&(?P<e>" + IDENT + r")\[\s*\.\.(?P<n>[^\]]+)\]\s*\{")
    return rx.subn(lambda m: "for vi__ in it: 0..(%s) /*@loophead*/ { let %s = &%s[vi__];" % (m.group("n").strip(), m.group("pat"), m.group("e")), text)


def _rule_R17(text, args):
    # for t in E.iter() {   ->   for vi in it: 0..E.len() { let t = &E[vi];    (same shape as R14, whole slice)
    name = args[0] if args else "it"
    rx = re.compile(r"for\s+(?P<pat>" + IDENT + r")\s+in\s+(?P<e>" + IDENT + r"(?:\." + IDENT + r")*)\.iter\(\)\s*\{")
    return rx.subn(lambda m: "for vi__ in %s: 0..(%s).len() /*@loophead*/ { let %s = &%s[vi__];" % (name, m.group("e"), m.group("pat"), m.group("e")), text)


def _rule_R18(text, args):
    # X.extend(E.iter().rev().copied());  ->  vstub_extend_rev(X, E);     X.extend(ident);  ->  vstub_extend_all(X, ident);
    # (Vec::extend over iterator adapters is outside Verus; the two std behaviours are bound to trusted stubs:
    #  append the elements of E in reverse order / in order)
    n = 0
    rx1 = re.compile(r"(?P<x>" + IDENT + r"(?:\." + IDENT + r"\(\))?)\.extend\(\s*(?P<e>[^;]*?)\.iter\(\)\.rev\(\)(?:\.copied\(\))?\s*\)\s*;")
    text, k = rx1.subn(lambda m: "vstub_extend_rev(%s, %s%s);" % (m.group("x"), "&" if re.fullmatch(IDENT, m.group("e").strip()) else "", m.group("e")), text)
    n += k
    rx2 = re.compile(r"(?P<x>" + IDENT + r")\.extend\(\s*(?P<e>" + IDENT + r")\s*\)\s*;")
    text, k = rx2.subn(lambda m: "vstub_extend_all(%s, %s);" % (m.group("x"), m.group("e")), text)
    n += k
    return text, n


def _rule_R19(text, args):
    # X.resize_with(N, Default::default);  ->  vstub_resize_with_default(X, N);
    # (Vec::resize_with is generic over the closure type; the one form used - filling with the default value - is bound to
    #  a trusted stub: the vector is truncated or padded with default values to length N)
    rx = re.compile(r"(?P<x>" + IDENT + r")\.resize_with\(\s*(?P<n>[^,;]+?)\s*,\s*Default::default\s*\)\s*;")
    return rx.subn(lambda m: "vstub_resize_with_default(%s, %s);" % (m.group("x"), m.group("n")), text)


def _rule_R20(text, args):
    # K.chars().next()  ->  vstub_str_first_char(K)        &K[c.len_utf8()..]  ->  vstub_str_after_first_char(K, c)
    # (Verus has no byte-level str reasoning; the two std behaviours - first character of a string / the string after
    #  its first character c - are bound to trusted stubs over the string's character sequence)
    n = 0
    rx1 = re.compile(r"(?P<k>" + IDENT + r")\.chars\(\)\.next\(\)")
    text, k = rx1.subn(lambda m: "vstub_str_first_char(%s)" % m.group("k"), text)
    n += k
    rx2 = re.compile(r"&(?P<k>" + IDENT + r")\[\s*(?P<c>" + IDENT + r")\.len_utf8\(\)\s*\.\.\s*\]")
    text, k = rx2.subn(lambda m: "vstub_str_after_first_char(%s, %s)" % (m.group("k"), m.group("c")), text)
    n += k
    return text, n


def _rule_R21(text, args):
    # for (a, b) in [ (x1, y1), (x2, y2), ... ] { BODY }   ->   { let (a, b) = (x1, y1); BODY } { let (a, b) = (x2, y2); BODY } ...
    # (Verus: by-value iteration over an array literal unsupported.  The loop over a LITERAL array is unrolled; sound
    #  when BODY has no `break` / `continue`, which the rule checks - it refuses otherwise)
    rx = re.compile(r"for\s+(?P<pat>\([^)]*\))\s+in\s+\[")
    n = 0
    while True:
        m = rx.search(text)
        if not m:
            break
        # the array literal
        i = m.end()
        depth, j = 1, i
        while depth:
            ch = text[j]
            if ch in "([{":
                depth += 1
            elif ch in ")]}":
                depth -= 1
            j += 1
        arr = text[i:j - 1]
        # elements: split at top-level commas
        elems, d, cur = [], 0, ""
        for ch in arr:
            if ch in "([{":
                d += 1
            elif ch in ")]}":
                d -= 1
            if ch == "," and d == 0:
                elems.append(cur.strip())
                cur = ""
            else:
                cur += ch
        if cur.strip():
            elems.append(cur.strip())
        k = j
        while text[k].isspace():
            k += 1
        if text[k] != "{":
            raise UnitError("R21: array literal not followed by a loop body")
        depth, e = 1, k + 1
        while depth:
            ch = text[e]
            if ch == "{":
                depth += 1
            elif ch == "}":
                depth -= 1
            e += 1
        body = text[k + 1:e - 1]
        if re.search(r"\b(break|continue)\b", body):
            raise UnitError("R21: loop body has break/continue; unrolling is not a faithful rewrite")
        unrolled = "".join("{ let %s = %s; %s }\n" % (m.group("pat"), el, body) for el in elems)
        text = text[:m.start()] + unrolled + text[e:]
        n += 1
    return text, n


def _rule_R31(text, args):
    # E.try_into().expect("..") / E.try_into().unwrap()  ->  vstub_try_into_T(E)     (E a field path like u.0; T = args[0])
    # (TryFrom between integer types is outside vstd; bound to a trusted stub whose PRECONDITION is that the value fits -
    #  so the obligation "this expect / unwrap never fails" is generated at the call site - and whose result is the value)
    t = args[0]
    rx = re.compile(r"(?<![A-Za-z0-9_.])(?P<e>" + IDENT + r"(?:\.(?:" + IDENT + r"|\d+))*)\.try_into\(\)\.(?:expect\(\s*\"[^\"]*\"\s*\)|unwrap\(\))")
    return rx.subn(lambda m: "vstub_try_into_%s(%s)" % (t, m.group("e")), text)


def _rule_R32(text, args):
    # parse::Error { field: expr, .. }  ->  vstub_parse_error_literal()
    # (a struct LITERAL of the error type, whose fields are message texts built with `.into()` / format! / vec![]: the
    #  literal is replaced by a call of a trusted constructor stub and its field expressions - texts, the offending token,
    #  the formatted number; no calls with effects - are DROPPED.  Refused when a field expression contains `?` or `(` other
    #  than the ones of Some(..) / .into() / format![..] / vec![..].)
    out, n, i = [], 0, 0
    while True:
        j = text.find("parse::Error {", i)
        if j < 0:
            out.append(text[i:]); break
        k = text.index("{", j); d = 0; e = k
        while True:
            if text[e] == "{": d += 1
            elif text[e] == "}":
                d -= 1
                if d == 0: break
            e += 1
        body = text[k + 1:e]
        chk = re.sub(r'"(?:[^"\\]|\\.)*"', '""', body)     # (string literals first: their text may hold parentheses)
        chk = re.sub(r"Some\([^()]*\)|\.into\(\)|format!\[[^\[\]]*\]|vec!\[\s*\]", "", chk)
        if "?" in chk or "(" in chk:
            out.append(text[i:e + 1]); i = e + 1; continue
        out.append(text[i:j]); out.append("vstub_parse_error_literal()"); i = e + 1; n += 1
    return "".join(out), n


def _rule_R23(text, args):
    # X.last_mut()  ->  vstub_vec_last_mut(X)     (X an identifier of type &mut Vec<T>)
    # (slice::last_mut through Vec's DerefMut is outside vstd; bound to a trusted stub: None on an empty vector, else a
    #  mutable reference to the last element, the others untouched)
    rx = re.compile(r"(?<![A-Za-z0-9_.])(?P<x>" + IDENT + r")\.last_mut\(\)")
    return rx.subn(lambda m: "vstub_vec_last_mut(%s)" % m.group("x"), text)


def _rule_R24(text, args):
    # E.filter(|&n| COND)  ->  (match E { Some(n) => if COND { Some(n) } else { None }, None => None })
    # (Option::filter over a Copy payload, desugared; E is the call / path expression directly before `.filter`)
    rx = re.compile(r"(?P<e>" + IDENT + r"(?:::" + IDENT + r")*\([^()]*\))\.filter\(\s*\|\s*&\s*(?P<n>" + IDENT + r")\s*\|\s*(?P<c>[^()|]+?)\s*\)")
    return rx.subn(lambda m: "(match %s { Some(%s) => if %s { Some(%s) } else { None }, None => None })" % (
        m.group("e"), m.group("n"), m.group("c"), m.group("n")), text)


def _hoist_closure(text, name, params, cspec, cexit, what):
    """rule R22: `let NAME = |PARAMS| EXPR;` where the closure captures nothing  ->  the statement is removed, calls
    NAME(..) become vclosure_NAME(..), and `fn vclosure_NAME(PARAMS: given types) <contract> { EXPR }` (EXPR verbatim) is
    emitted after the item.  A closure that does capture a local makes the hoisted function fail to compile (UNDECIDED)."""
    rx = re.compile(r"let\s+" + re.escape(name) + r"\s*=\s*\|(?P<ps>[^|]*)\|")
    m = rx.search(text)
    if not m:
        raise UnitError("%s: closure %s not found (rule R22)" % (what, name))
    # parameter names of the closure, in order
    names = []
    d = 0
    cur = ""
    for ch in m.group("ps") + ",":
        if ch in "<([":
            d += 1
        elif ch in ">)]":
            d -= 1
        if ch == "," and d == 0:
            if cur.strip():
                names.append(cur.split(":")[0].strip())
            cur = ""
        else:
            cur += ch
    given = [a.partition(":") for a in params]
    if [g[0] for g in given] != names:
        raise UnitError("%s: closure %s has parameters %r, directive gives %r" % (what, name, names, [g[0] for g in given]))
    # EXPR: up to the `;` at depth 0
    i = m.end()
    d = 0
    j = i
    while j < len(text):
        ch = text[j]
        if ch in "([{":
            d += 1
        elif ch in ")]}":
            d -= 1
        elif ch == ";" and d == 0:
            break
        j += 1
    expr = text[i:j].strip()
    rest = text[:m.start()] + "/* R22: closure `%s` hoisted to fn vclosure_%s below */" % (name, name) + text[j + 1:]
    rest, ncalls = re.subn(r"(?<![A-Za-z0-9_.])" + re.escape(name) + r"\s*\(", "vclosure_%s(" % name, rest)
    plist = ", ".join("%s: %s" % (g[0], g[2]) for g in given)
    body = expr
    if cexit.strip():
        body = "let vresult__ = { %s };\n/*@hint*/ %s /*@endhint*/\n vresult__" % (expr, cexit.strip())
    hoisted = ("// R22: the non-capturing closure `%s` of %s, hoisted (body verbatim)\nfn vclosure_%s(%s)\n/*@spec*/\n%s\n/*@endspec*/\n{\n%s\n}\n"
               % (name, what, name, plist, cspec.rstrip(), body))
    return rest, hoisted, ncalls


def _rule_R25(text, args):
    # for (I, P) in E.iter().enumerate() {   ->   for I in it: 0..(E).len() { let P = &(E)[I];
    name = args[0] if args else "it"
    rx = re.compile(r"for\s+\(\s*(?P<i>" + IDENT + r")\s*,\s*(?P<p>" + IDENT + r")\s*\)\s+in\s+(?P<e>" + IDENT + r"(?:\." + IDENT + r")*)\.iter\(\)\.enumerate\(\)\s*\{")
    return rx.subn(lambda m: "for %s in %s: 0..(%s).len() /*@loophead*/ { let %s = &(%s)[%s];" % (m.group("i"), name, m.group("e"), m.group("p"), m.group("e"), m.group("i")), text)


def _rule_R26(text, args):
    # for (A, B) in &V {   ->   for vj__ in it2: 0..(V).len() { let (A, B) = &(V)[vj__];
    name = args[0] if args else "it2"
    rx = re.compile(r"for\s+(?P<pat>\(\s*" + IDENT + r"\s*,\s*" + IDENT + r"\s*\))\s+in\s+&(?P<v>" + IDENT + r")\s*\{")
    return rx.subn(lambda m: "for vj__ in %s: 0..(%s).len() /*@loophead*/ { let %s = &(%s)[vj__];" % (name, m.group("v"), m.group("pat"), m.group("v")), text)


def _rule_R27(text, args):
    # X.get(A..B).unwrap()  ->  vstub_subslice(&X, A, B)        &X[A..B]  ->  vstub_subslice(&X, A, B)
    # (range indexing of a Vec is outside vstd; bound to a trusted stub that REQUIRES A <= B <= X.len() - so the panic of
    #  the unwrap / of the index expression stays an obligation - and returns the sub-slice)
    n = 0
    rx1 = re.compile(r"(?P<x>" + IDENT + r")\.get\(\s*(?P<a>[^()]*?)\s*\.\.\s*(?P<b>[^()]*?)\s*\)\.unwrap\(\)")
    text, k = rx1.subn(lambda m: "vstub_subslice(&%s, %s, %s)" % (m.group("x"), m.group("a"), m.group("b")), text)
    n += k
    rx2 = re.compile(r"&(?P<x>" + IDENT + r")\[\s*(?P<a>[^\[\]]*?)\s*\.\.\s*(?P<b>[^\[\]]+?)\s*\]")
    text, k = rx2.subn(lambda m: "vstub_subslice(&%s, %s, %s)" % (m.group("x"), m.group("a"), m.group("b")), text)
    n += k
    return text, n


def _rule_R28(text, args):
    # E.into_iter().map(|A| BODY).collect()   ->
    #   { let mut vsrc__ = E; let mut vdst__ = Vec::new(); while let Some(A) = vstub_pop_front(&mut vsrc__) /*@loophead*/ { vdst__.push(BODY); } vdst__ }
    # (iterator adapters are outside Verus; consuming a Vec front to back and collecting the images is desugared into a
    #  loop over a trusted take-the-first-element stub; BODY verbatim)
    rx = re.compile(r"(?P<e>" + IDENT + r")\s*\.into_iter\(\)\s*\.map\(\s*\|\s*(?P<a>" + IDENT + r")\s*\|")
    n = 0
    while True:
        m = rx.search(text)
        if not m:
            break
        # BODY runs to the `)` closing `.map(`
        i = m.end()
        d, j = 1, i
        while d:
            ch = text[j]
            if ch in "([{":
                d += 1
            elif ch in ")]}":
                d -= 1
            j += 1
        body = text[i:j - 1].strip()
        m2 = re.match(r"\s*\.collect\(\)", text[j:])
        if not m2:
            raise UnitError("R28: .map(..) not followed by .collect()")
        rep = ("{ let mut vsrc__ = %s; let mut vdst__ = Vec::new(); while let Some(%s) = vstub_pop_front(&mut vsrc__) /*@loophead*/ { vdst__.push(%s); } vdst__ }"
               % (m.group("e"), m.group("a"), body))
        text = text[:m.start()] + rep + text[j + m2.end():]
        n += 1
    return text, n


def _rule_R29(text, args):
    # for r in E.iter_mut() {   ->   index loop `let r = &mut (E)[i]` (same shape as R4);      X.reverse();  ->  vstub_vec_reverse(X);
    n = 0
    name = args[0] if args else "vk__"
    rx = re.compile(r"for\s+(?P<pat>" + IDENT + r")\s+in\s+(?P<e>" + IDENT + r")\.iter_mut\(\)\s*\{")
    text, k = rx.subn(lambda m: "let mut %s: usize = 0; while %s < (%s).len() /*@loophead*/ { %s += 1; let %s = &mut (%s)[%s - 1];" % (
        name, name, m.group("e"), name, m.group("pat"), m.group("e"), name), text)
    n += k
    rx2 = re.compile(r"(?<![A-Za-z0-9_.])(?P<x>" + IDENT + r")\.reverse\(\)\s*;")
    text, k = rx2.subn(lambda m: "vstub_vec_reverse(%s);" % m.group("x"), text)
    n += k
    return text, n


def _rule_R30(text, args):
    # NAME(a, b)  for a local NAME that holds a FUNCTION POINTER  ->  vstub_call_NAME(NAME, a, b)
    # (X.N)(a, X.M)  for a function pointer held in tuple field N of an OPAQUE struct value X (self or a local)
    #                ->  vstub_call_self_N(<ref to X>, a)   - a trailing `X.M` argument (the variable's index, another field
    #                    of the same opaque value) travels with X
    # (Verus has no function-pointer types: the pointer is an opaque value and the call a trusted stub whose effect is an
    #  oracle; args: the local names / X.N forms)
    n = 0
    for name in args:
        m = re.fullmatch(r"(" + IDENT + r")\.(\d+)", name)
        if m:
            x, fld = m.group(1), m.group(2)
            ref = "self" if x == "self" else "&" + x
            rx = re.compile(r"\(\s*" + re.escape(x) + r"\s*\.\s*" + fld + r"\s*\)\s*\(")
            text, k = rx.subn("vstub_call_self_%s(%s, " % (fld, ref), text)
            if k:
                text = re.sub(r"(vstub_call_self_" + fld + r"\(" + re.escape(ref) + r", [^;]*?),\s*" + re.escape(x) + r"\s*\.\s*\d+\s*\)", r"\1)", text)
            n += k
            continue
        rx = re.compile(r"(?<![A-Za-z0-9_.:])" + re.escape(name) + r"\(")
        text, k = rx.subn("vstub_call_%s(%s, " % (name, name), text)
        n += k
    return text, n


def _rule_R6(text, args):
    # path normalisation for the one-file unit: args are from=to pairs (e.g. super::OptionalSpace=OptionalSpace)
    n = 0
    for a in args:
        frm, _, to = a.partition("=")
        frm, to = frm.replace("%20", " "), to.replace("%20", " ")     # (%20 = a space inside a from / to text)
        rx = re.compile(r"(?<![A-Za-z0-9_:])" + re.escape(frm) + r"(?![A-Za-z0-9_])")
        text, k = rx.subn(to, text)
        n += k
    return text, n


def _rule_R15(text, args):
    # fn f(_: T)  ->  fn f(_unusedN: T)     (Verus: a parameter must be an identifier)
    cnt = [0]

    def rep(m):
        cnt[0] += 1
        return "%s_unused%d:" % (m.group(1), cnt[0])
    # only inside the parameter list: between the first '(' and the body '{' - approximated by `( _:` / `, _:`
    return re.subn(r"([(,]\s*)_\s*:", rep, text)


def _rule_R16(text, args):
    # write!(f, "{name}.")  ->  write!(f, "{}.", name)   (inline format arguments -> positional, so that the macro
    # bound to the trusted formatter stub can see the argument)
    rx = re.compile(r'write!\(\s*(' + IDENT + r')\s*,\s*"\{(' + IDENT + r')\}([^"{}]*)"\s*\)')
    return rx.subn(lambda m: 'write!(%s, "{}%s", %s)' % (m.group(1), m.group(3), m.group(2)), text)


RULES = {"R32": _rule_R32, "R31": _rule_R31, "R30": _rule_R30, "R29": _rule_R29, "R28": _rule_R28, "R27": _rule_R27, "R26": _rule_R26, "R25": _rule_R25, "R24": _rule_R24, "R23": _rule_R23, "R21": _rule_R21, "R20": _rule_R20, "R19": _rule_R19, "R18": _rule_R18, "R17": _rule_R17, "R16": _rule_R16, "R15": _rule_R15, "R6": _rule_R6, "R14": _rule_R14, "R13": _rule_R13, "R1": _rule_R1, "R4": _rule_R4, "R4rev": _rule_R4rev, "R11": _rule_R11, "R8": _rule_R8, "R7": _rule_R7,
         "R9": _rule_R9, "R12": _rule_R12}


def _filter_attrs(attrs_text, derive_allow):
    out = []
    for m in re.finditer(r"#\[derive\(([^)]*)\)\]", attrs_text):
        names = [x.strip() for x in m.group(1).split(",") if x.strip()]
        keep = [x for x in names if x in derive_allow]
        if keep:
            out.append("#[derive(%s)]" % ", ".join(keep))
    if re.search(r"#\[default\]", attrs_text):
        out.append("#[default]")
    return "\n".join(out) + ("\n" if out else "")


def _find_loops(toks, lo, hi):
    """indices (kw_idx, body_open_idx, body_close_idx) of loops in toks[lo:hi], source order, all depths"""
    loops = []
    i = lo
    while i < hi:
        t = toks[i]
        if t.kind == "ident" and t.text in ("for", "while", "loop"):
            # `for` in `impl X for Y` / `for<'a>` cannot occur in bodies we handle except HRTB; skip if followed by '<'
            j = i + 1
            while j < hi and toks[j].kind in ("ws", "comment"):
                j += 1
            if t.text == "for" and toks[j].kind == "punct" and toks[j].text == "<":
                i += 1
                continue
            d = 0
            k = i + 1
            body = None
            while k < hi:
                tk = toks[k]
                if tk.kind == "punct":
                    if tk.text in "([":
                        k = match_close(toks, k)
                    elif tk.text == "{":
                        body = k
                        break
                    elif tk.text == ";":
                        break
                k += 1
            if body is not None:
                loops.append((i, body, match_close(toks, body)))
        i += 1
    return loops


def _strip_inner_docs(text):
    return text


def weave_fn(item_text, opts, spec, loops_spec, hints, log, what):
    """item_text: verbatim fn text (from visibility to closing brace).  Returns new text + clause list."""
    toks = tokenize(item_text)
    # locate fn keyword
    kw = None
    for i, t in enumerate(toks):
        if t.kind == "ident" and t.text == "fn":
            kw = i
            break
    if kw is None:
        raise UnitError("%s: no fn keyword" % what)
    # body open
    k = kw + 1
    body_open = None
    params_close = None
    while k < len(toks):
        tk = toks[k]
        if tk.kind == "punct":
            if tk.text in "([":
                c = match_close(toks, k)
                if tk.text == "(" and params_close is None:
                    params_close = c
                k = c
            elif tk.text == "{":
                body_open = k
                break
            elif tk.text == ";":
                break
        k += 1
    has_body = body_open is not None
    sig_end_tok = body_open if has_body else k  # token index of '{' or ';'
    body_close = match_close(toks, body_open) if has_body else None

    inserts = []  # (char offset, text, order)

    # return value naming
    ret = opts.get("ret")
    if ret:
        # find '->' after params_close at depth 0
        j = params_close + 1
        arrow = None
        while j < sig_end_tok:
            if toks[j].kind == "punct" and toks[j].text == "-" and toks[j + 1].kind == "punct" and toks[j + 1].text == ">":
                arrow = j
                break
            j += 1
        if arrow is None:
            raise UnitError("%s: ret= given but function has no return type" % what)
        ty_start = arrow + 2
        while toks[ty_start].kind == "ws":
            ty_start += 1
        ty_end = sig_end_tok
        j = ty_start
        while j < sig_end_tok:
            if toks[j].kind == "punct" and toks[j].text in "([":
                j = match_close(toks, j)
            elif toks[j].kind == "ident" and toks[j].text == "where":
                ty_end = j
                break
            j += 1
        # trim trailing ws
        e = ty_end - 1
        while toks[e].kind == "ws":
            e -= 1
        inserts.append((toks[ty_start].start, "(%s: " % ret, 0))
        inserts.append((toks[e].end, ")", 0))

    clauses = []
    if spec.strip():
        inserts.append((toks[sig_end_tok].start, "\n/*@spec*/\n" + spec.rstrip() + "\n/*@endspec*/\n", 1))

    if has_body:
        loops = _find_loops(toks, body_open + 1, body_close)
        for n, text in loops_spec.items():
            if n < 1 or n > len(loops):
                raise UnitError("%s: loop %d not found (function has %d loops)" % (what, n, len(loops)))
            _, lb, _ = loops[n - 1]
            inserts.append((toks[lb].start, "\n/*@loop %d*/\n" % n + text.rstrip() + "\n/*@endloop*/\n", 1))
        for pos, text in hints:
            text = "\n/*@hint*/ " + text.strip() + " /*@endhint*/\n"
            if pos == "entry":
                inserts.append((toks[body_open].end, text, 2))
            elif pos == "exit":
                # rule R10: `{ BODY }` -> `{ let vresult__ = { BODY }; <proof hint>; vresult__ }`
                # (evaluation order unchanged; an early `return` inside BODY simply does not see the hint)
                inserts.append((toks[body_open].end, " let vresult__ = {", 3))
                inserts.append((toks[body_close].start, "};" + text + " vresult__ ", 2))
            elif re.match(r"loop(\d+)\.(top|bottom)$", pos):
                m = re.match(r"loop(\d+)\.(top|bottom)$", pos)
                n = int(m.group(1))
                if n < 1 or n > len(loops):
                    raise UnitError("%s: hint loop %d not found" % (what, n))
                _, lb, lc = loops[n - 1]
                if m.group(2) == "top":
                    inserts.append((toks[lb].end, text, 2))
                else:
                    # the body may end in an expression statement without `;` (e.g. `x = match .. { .. }`)
                    pj = lc - 1
                    while pj > lb and toks[pj].kind in ("ws", "comment", "doc"):
                        pj -= 1
                    semi = "" if (toks[pj].kind == "punct" and toks[pj].text == ";") or pj == lb else ";"
                    inserts.append((toks[lc].start, semi + text, 2))
            elif pos.startswith("before ") or pos.startswith("after "):
                which, _, rest = pos.partition(" ")
                m = re.match(r"\s*`([^`]*)`\s*(#\d+)?\s*$", rest)
                if not m:
                    raise UnitError("%s: bad hint position %r" % (what, pos))
                rx = re.compile(_ws_flexible(m.group(1)))
                ordn = int(m.group(2)[1:]) if m.group(2) else 1
                body_lo = toks[body_open].end
                ms = list(rx.finditer(item_text, body_lo))
                if which == "before":
                    # a `before` anchor names the START of a statement / tail expression: the previous significant
                    # character must be one of ; { } (so `d != 0` does not match inside `*d != 0`)
                    def _at_stmt_start(mm):
                        # token-level: skip whitespace and comments backwards
                        prev = None
                        for tk in toks:
                            if tk.start >= mm.start():
                                break
                            if tk.kind not in ("ws", "comment", "doc"):
                                prev = tk
                        return prev is None or (prev.kind == "punct" and prev.text in ";{}")
                    ms = [mm for mm in ms if _at_stmt_start(mm)]
                if len(ms) < ordn:
                    log.anchor_lost.append("%s: hint anchor %r" % (what, m.group(1)))
                    continue
                mm = ms[ordn - 1]
                inserts.append((mm.start() if which == "before" else mm.end(), text, 2))
            else:
                raise UnitError("%s: unknown hint position %r" % (what, pos))

    # apply inserts back to front
    out = item_text
    for off, text, _ in sorted(inserts, key=lambda x: (-x[0], -x[2])):
        out = out[:off] + text + out[off:]
    return out


def _drop_body(item_text, what):
    """replace the body of a fn item by `{ unimplemented!() }` (used for assumed contracts)"""
    toks = tokenize(item_text)
    kw = None
    for i, t in enumerate(toks):
        if t.kind == "ident" and t.text == "fn":
            kw = i
            break
    if kw is None:
        raise UnitError("%s: no fn keyword" % what)
    k = kw + 1
    while k < len(toks):
        tk = toks[k]
        if tk.kind == "punct":
            if tk.text in "([":
                k = match_close(toks, k)
            elif tk.text == "{":
                c = match_close(toks, k)
                return item_text[:tk.start] + "{ unimplemented!() }" + item_text[toks[c].start + 1:]
            elif tk.text == ";":
                break
        k += 1
    raise UnitError("%s: no body to drop" % what)


def _apply_vis(text, vis):
    if vis == "keep":
        return text
    m = re.match(r"pub\s*\([^)]*\)\s*", text)
    if m:
        text = "pub " + text[m.end():]
    if vis == "pub" and not text.startswith("pub"):
        text = "pub " + text
    if vis == "none":
        text = re.sub(r"^pub\s+", "", text)
    return text


def _pubfields(text):
    """struct { a: T, pub(crate) b: U } -> all fields pub; tuple structs likewise"""
    toks = tokenize(text)
    # find first '{' or '(' after name
    out = []
    depth = 0
    i = 0
    # locate body opener
    opener = None
    for idx, t in enumerate(toks):
        if t.kind == "punct" and t.text in "{(" and idx > 0:
            # skip generics: crude – first { or ( at angle depth ignoring
            opener = idx
            break
    if opener is None:
        return text
    closer = match_close(toks, opener)
    res = text[: toks[opener].end]
    j = opener + 1
    field_start = True
    d = 0
    ang = 0
    is_enum = False
    while j < closer:
        t = toks[j]
        if field_start and t.kind not in ("ws", "comment", "doc"):
            # strip attributes on fields
            if t.kind == "punct" and t.text == "#":
                k = j + 1
                while toks[k].kind == "ws":
                    k += 1
                j = match_close(toks, k) + 1
                continue
            # existing visibility
            if t.kind == "ident" and t.text == "pub":
                k = j + 1
                while toks[k].kind == "ws":
                    k += 1
                if toks[k].kind == "punct" and toks[k].text == "(":
                    k = match_close(toks, k) + 1
                    res += "pub "
                    j = k
                    while toks[j].kind == "ws":
                        j += 1
                    field_start = False
                    continue
                field_start = False
            else:
                res += "pub "
                field_start = False
        if t.kind == "punct":
            if t.text in "([{":
                c = match_close(toks, j)
                res += text[t.start: toks[c].end]
                j = c + 1
                continue
            if t.text == "<":
                ang += 1
            elif t.text == ">" and ang > 0 and not (toks[j - 1].kind == "punct" and toks[j - 1].text == "-"):
                ang -= 1
            elif t.text == "," and ang == 0:
                field_start = True
        if t.kind in ("doc",):
            j += 1
            continue
        res += t.text
        j += 1
    res += text[toks[closer].start:]
    return res


def _strip_field_attrs(text, keep_default=False):
    # remove #[...] attributes and doc comments inside an item (enum variants / struct fields)
    toks = tokenize(text)
    res = ""
    j = 0
    while j < len(toks):
        t = toks[j]
        if t.kind == "doc":
            j += 1
            continue
        if t.kind == "punct" and t.text == "#":
            k = j + 1
            while k < len(toks) and toks[k].kind == "ws":
                k += 1
            if k < len(toks) and toks[k].kind == "punct" and toks[k].text == "[":
                inner = text[toks[k].start: toks[match_close(toks, k)].end]
                if inner.startswith("[default]") and keep_default:
                    res += "#" + inner
                j = match_close(toks, k) + 1
                continue
        res += t.text
        j += 1
    return res


def assemble(unit_path, canary=None):
    log = Woven()
    with open(unit_path, encoding="utf-8") as f:
        lines = f.read().split("\n")
    # //@include <file relative to units/> [assumed]  (textual, nested includes allowed; `assumed` is inherited)
    units_root = os.path.join(os.path.dirname(os.path.dirname(os.path.abspath(__file__))), "units")

    def expand(src_lines, assumed, depth):
        if depth > 6:
            raise UnitError("%s: includes nested too deeply" % unit_path)
        out_l = []
        for ln in src_lines:
            if ln.strip().startswith("//@include"):
                inc_args = ln.strip()[len("//@include"):].split()
                with open(os.path.join(units_root, inc_args[0]), encoding="utf-8") as f:
                    inc_lines = f.read().split("\n")
                # `//@include <file> assumed`: the contracts of the file are ASSUMED here (bodies dropped); the unit
                # that includes the same file without `assumed` proves the very same contract text on the real bodies
                out_l.extend(expand(inc_lines, assumed or "assumed" in inc_args[1:], depth + 1))
            else:
                out_l.append(ln)
                if assumed and ln.strip().startswith("//@item"):
                    out_l.append("//@opt body=assumed")
        return out_l

    exp = expand(lines, False, 0)
    lines = exp
    if canary is not None:
        # a canary replaces one contract clause by a wrong one (after include expansion, so shared preludes count)
        txt = "\n".join(lines)
        if canary["find"] not in txt:
            raise UnitError("canary %s: text to replace not found in unit" % canary["name"])
        lines = txt.replace(canary["find"], canary["replace"], 1).split("\n")
    out = []
    i = 0
    cur_line = 1

    def emit(text):
        nonlocal cur_line
        out.append(text)
        cur_line += text.count("\n")

    while i < len(lines):
        ln = lines[i]
        s = ln.strip()
        if not s.startswith("//@item"):
            if s.startswith("//@"):
                raise UnitError("%s:%d: directive outside item block: %s" % (unit_path, i + 1, s))
            emit(ln + "\n")
            i += 1
            continue
        spec_part = s[len("//@item"):].strip()
        comps = [c.strip() for c in spec_part.split(" :: ")]
        rel, path = comps[0], comps[1:]
        opts = {}
        rewrites = []
        rules = []
        spec = ""
        loops_spec = {}
        hints = []
        closures = {}   # name -> {"params": [...], "spec": str, "exit": str}
        section = None
        buf = []
        i += 1

        def flush():
            nonlocal spec, buf
            text = "\n".join(buf)
            if section is None:
                if text.strip():
                    raise UnitError("%s: stray text in item block %s" % (unit_path, spec_part))
            elif section[0] == "spec":
                spec = text
            elif section[0] == "loop":
                loops_spec[section[1]] = text
            elif section[0] == "hint":
                hints.append((section[1], text))
            elif section[0] == "closure":
                closures.setdefault(section[1], {"params": [], "spec": "", "exit": ""})
                closures[section[1]]["params"] = section[2]
                closures[section[1]]["spec"] = text
            elif section[0] == "closureexit":
                closures.setdefault(section[1], {"params": [], "spec": "", "exit": ""})["exit"] = text
            buf = []

        while i < len(lines):
            ln2 = lines[i]
            s2 = ln2.strip()
            if s2.startswith("//@end"):
                flush()
                i += 1
                break
            if s2.startswith("//@opt"):
                for kv in s2[len("//@opt"):].split():
                    k, _, v = kv.partition("=")
                    opts[k] = v
            elif s2.startswith("//@rule"):
                parts = s2[len("//@rule"):].split()
                if not parts or parts[0] not in RULES:
                    raise UnitError("%s:%d: unknown rule %s" % (unit_path, i + 1, s2))
                rules.append((parts[0], parts[1:]))
            elif s2.startswith("//@rewrite"):
                rest = s2[len("//@rewrite"):].strip()
                rule, _, rest2 = rest.partition(" ")
                # allow multi-line rewrite: keep consuming lines until backticks balance (4 ticks)
                while rest2.count("`") < 4:
                    i += 1
                    rest2 += "\n" + lines[i]
                a, b = _split_ticks(rest2)
                rewrites.append((rule, a, b))
            elif s2.startswith("//@spec"):
                flush()
                section = ("spec",)
            elif s2.startswith("//@loop"):
                flush()
                section = ("loop", int(s2[len("//@loop"):].strip()))
            elif s2.startswith("//@hint"):
                flush()
                section = ("hint", s2[len("//@hint"):].strip())
            elif s2.startswith("//@closureexit"):
                flush()
                section = ("closureexit", s2[len("//@closureexit"):].strip())
            elif s2.startswith("//@closure"):
                flush()
                parts = s2[len("//@closure"):].strip().split(" ", 1)
                # parameters: `name:Type` separated by ` ; ` (types contain spaces and commas)
                section = ("closure", parts[0], [x.strip() for x in (parts[1] if len(parts) > 1 else "").split(" ; ") if x.strip()])
            elif s2.startswith("//@"):
                raise UnitError("%s:%d: unknown directive %s" % (unit_path, i + 1, s2))
            else:
                buf.append(ln2)
            i += 1
        else:
            raise UnitError("%s: unterminated item block %s" % (unit_path, spec_part))

        what = rel + " :: " + " :: ".join(path)
        try:
            src, toks = _load(rel)
        except OSError as e:
            raise UnitError("%s: cannot read source: %s" % (what, e))
        try:
            item = find_item(src, path, toks)
        except ItemNotFound as e:
            raise UnitError("%s: %s" % (what, e))
        text = item.text
        sha = hashlib.sha1(text.encode()).hexdigest()
        repo_line = item.line
        # attributes: derive allow-list
        derive_allow = [x for x in opts.get("derive", "").split(",") if x]
        attrs = _filter_attrs(item.attrs_text, derive_allow)
        if opts.get("addattr"):
            # attributes that exist only for the verifier (e.g. verifier::reject_recursive_types(S)); `;` separates several
            for a_ in opts["addattr"].split(";"):
                attrs += "#[%s]\n" % a_
        if opts.get("addderive"):
            # derives that exist only for the verifier (e.g. vstd's `Structural`: derived == is structural equality)
            attrs += "#[derive(%s)]\n" % opts["addderive"]
        # pattern rules (zero occurrences allowed)
        for rname, rargs in rules:
            text, n_occ = RULES[rname](text, rargs)
            log.rewrites.append({"item": what, "rule": rname, "args": rargs, "occurrences": n_occ})
        # exact-text rewrites (must be found)
        for rule, a, b in rewrites:
            rx = re.compile(_ws_flexible(a))
            if not rx.search(text):
                raise UnitError("%s: rewrite %s source text not found: %r" % (what, rule, a))
            n_occ = len(rx.findall(text))
            text = rx.sub(lambda m: b, text)
            log.rewrites.append({"item": what, "rule": rule, "from": a, "to": b, "occurrences": n_occ})
        hoisted_fns = []
        if item.kind == "fn" and opts.get("body") != "assumed":
            for cname, c in closures.items():
                text, hfn, ncalls = _hoist_closure(text, cname, c["params"], c["spec"], c["exit"], what)
                hoisted_fns.append(hfn)
                log.rewrites.append({"item": what, "rule": "R22", "from": "let %s = |..| EXPR;" % cname, "to": "fn vclosure_%s(..) { EXPR }" % cname, "occurrences": ncalls})
        if item.kind == "fn" and opts.get("body") == "assumed":
            text = _apply_vis(text, opts.get("vis", "norm"))
            text = _drop_body(text, what)
            text = weave_fn(text, opts, spec, {}, [], log, what)
            text = ("// ASSUMED-CONTRACT TRUSTED here: %s (this contract text is proved on the real body by the unit that includes it without `assumed`)\n"
                    "#[verifier::external_body]\n" % what) + text
            log.rewrites.append({"item": what, "rule": "ASSUMED", "from": "body", "to": "unimplemented!()", "occurrences": 1})
        elif item.kind == "fn":
            text = _apply_vis(text, opts.get("vis", "norm"))
            text = weave_fn(text, opts, spec, loops_spec, hints, log, what)
            if opts.get("mode"):
                text = opts["mode"] + " " + text
            if hoisted_fns:
                text = text + "\n" + "\n".join(hoisted_fns)
        else:
            text = _apply_vis(text, opts.get("vis", "norm"))
            if item.kind in ("struct", "enum"):
                text = _strip_field_attrs(text, "Default" in derive_allow)
                if opts.get("pubfields") and item.kind == "struct":
                    text = _pubfields(text)
            if item.kind == "const" and spec.strip():
                # rule R2: `const N: T = E;` -> `exec const N: T <spec> { <entry hints> E }`  (E verbatim)
                m = re.match(r"(?s)^(pub\s+)?const\s+([A-Za-z_][A-Za-z0-9_]*)\s*:\s*(.*?)\s*=\s*(.*);\s*$", text)
                if not m:
                    raise UnitError("%s: cannot parse const item for rule R2" % what)
                hint_txt = "\n".join(t for p_, t in hints if p_ == "entry")
                text = "%sexec const %s: %s\n/*@spec*/\n%s\n/*@endspec*/\n{\n%s\n%s\n}" % (
                    m.group(1) or "", m.group(2), m.group(3), spec.rstrip(), hint_txt, m.group(4))
                log.rewrites.append({"item": what, "rule": "R2", "from": "const N: T = E;", "to": "exec const N: T ensures .. { E }", "occurrences": 1})
            elif spec.strip() or loops_spec or hints:
                raise UnitError("%s: contracts can only be woven into fn/const items" % what)
        start_line = cur_line
        emit(attrs + text + "\n")
        log.items.append({
            "item": what, "kind": item.kind, "file": rel, "repo_line": repo_line, "sha1": sha,
            "out_start": start_line, "out_end": cur_line - 1,
            "has_contract": bool(spec.strip()),
            "assumed": item.kind == "fn" and opts.get("body") == "assumed",
            "n_clause_lines": len([l for l in spec.split("\n") if l.strip() and not l.strip().startswith("//")])
            + sum(len([l for l in t.split("\n") if l.strip()]) for t in loops_spec.values()),
        })
    log.text = "".join(out)
    return log
