NOTES = ("Exit codes: 0 held / 1 VIOLATION / 2 UNDECIDED (lost anchor, tool error, resource limit, trusted-base drift; never an alarm). "
         "Known findings and fixed defects: /verif/known_findings.json. See DESIGN.md.")

CHECKS = {
    "C06": {
        "text": "Proof (Verus) on the real functions, extracted verbatim each run. crates/common/src/lib.rs: Scaled::{from_integer, from_decimal_digits, new, xn_over_d, nx_plus_y, integer_part, fractional_part, abs, checked_*/wrapping_*}, the operator impls, ScaledUnit::conversion_fraction and display_no_units::fmt are proved equal to independent transcriptions of TeX.2021 §§100-107, 458 and print_scaled (§103) for all inputs; the Display impls of Scaled, GlueOrder and Glue print exactly TeX's print_spec (§§176-178: width, ` plus ` / ` minus ` parts iff non-zero, pt / fil / fill / filll), and Glue::{wrapping_add, checked_add, checked_mul, wrapping_mul, checked_div} == TeX §1239-1240. crates/texlang/src/parse/integer.rs: add_lsd, parse_constant, parse_optional_signs and parse_integer == TeX §§440-446 (all three radices, saturation at 2^31-1 with exactly one error, sign parity, silent wrap of -(-2^31)). crates/texlang/src/parse/keyword.rs: parse_keyword == TeX §407 (which tokens a keyword occupies in either ASCII case, everything put back on a mismatch at any position); the unit keyword parser <ScaledUnit as Parsable>::parse_impl == TeX §458 (nine units in order, else one error + pt, nothing consumed). crates/texlang/src/parse/glue.rs: <Glue as Parsable>::parse_impl == TeX §461. crates/texlang/src/parse/dimen.rs: scan_decimal_fraction (17 kept digits), scan_constant_dimen, scan_and_apply_units (fil/fill/filll, internal quantities, em/ex, [true] + the nine units), handle_overflow and scan_dimen == TeX §§448-458 for every token sequence, including the documented error + clamped value. crates/texlang-stdlib/src/math.rs: the \\advance/\\multiply/\\divide kernels for i32, Scaled and Glue == TeX's integer algorithms (wrap on \\advance, error + no change on overflow or division by zero).",
        "design_ref": "DESIGN.md §5 C06",
        "note": "Trusted oracles around the proved functions: parse_internal_number, parse_character, the provided method Parsable::parse (delegates to parse_impl), the ExpandedStream next/back/error model (macro expansion abstracted), em/ex providers, three std string/char stubs under parse_keyword; the.rs token production is covered by bounded drivers only. texcraft's parse_keyword matches LETTER tokens only (TeX §407 accepts any non-active category): observation in DESIGN 9.3, encoded in the spec as the code's behaviour, outside what C06 states. Assumed: Verus/Z3 + vstd; derived PartialOrd on Scaled is the order of the inner i32. Left open (outside TeX's constant grammar): `<digits><space><point>`.",
        "technique": "contract-based deductive verification (Verus requires/ensures/loop invariants on extracted real code)",
    },
}

CHECKS["C01"] = {
    "text": "Proof of the mechanism (Verus, real code extracted each run): GroupingContainer::{insert,get,begin_group,end_group} equal a stack-of-snapshots model for every history and depth (representation invariant proved preserved); update_save_stack: Local keeps the first overwritten value of the innermost level, Global purges the variable from EVERY level, other types' slots framed; command::Map opens/closes a group in BOTH its containers (control sequences and active characters) and routes inserts; Map::alias_control_sequence (\\let) inserts the CURRENT meaning of its source - also when source and alias are the same name - with the given scope; VM::begin_group / VM::end_group keep the command map, the variable save stack and the font save stack in lockstep for every history (so the two unwrap()s on the popped stacks cannot fail); prefix::Component::read_and_reset_global consumes the \\global flag exactly once and honours \\globaldefs; process_prefixes / complete_prefix / assert_only_global_prefix: all prefix commands are consumed, the prefixed command stays in the input and must be prefixable (variables and fonts by \\global only), the sticky bit is set iff \\global is among the prefixes and the component is untouched otherwise, and the panic! in Prefix::get_one is unreachable from the three primitives.",
    "design_ref": "DESIGN.md §5 C01",
    "note": "Not verified: VM::run_impl dispatch, TypedVariable::set and SaveStackMap::restore (they call setters through function-pointer fields, which Verus rejects), Vec backing container get_mut (get/remove/insert are proved), the macro-generated map_getter closures (assumed to be field lenses). Trusted: vstd HashMap model, HashMap::get_mut delegation, consuming HashMap iteration modelled as take-any-until-empty. A bounded driver (real VM + stdlib vs a snapshot model over group histories) stands in for the unverified glue and is labelled bounded.",
    "technique": "contract-based deductive verification (Verus: data-structure invariant + abstract model view, loop invariants, closure lens contract)",
}
CHECKS["C20"] = {
    "text": "Proof (Verus): after every local insert, global insert, begin-group and end-group the real GroupingContainer equals the stack-of-snapshots model (visible map + one snapshot per open group), with its representation invariant preserved, for all keys, values, histories and depths, over the BackingContainer trait contract; the HashMap implementation and the Vec<Option<V>> implementation (get, remove, insert) are proved against it. KMP: Matcher::new builds exactly the prefix function of the pattern and Search::next reports a match iff the pattern ends at the current position, for every pattern and every text.",
    "design_ref": "DESIGN.md §5 C20",
    "note": "NOT proved: iter_all/FromIterator replay and the string interner (bounded driver only: replay over every history <= 4 x continuation <= 2; interner under a constant hasher); tag uniqueness across threads is not decided at all (concurrency is outside both verifiers). Trusted: vstd HashMap model; HashMap::get_mut; consuming iteration modelled as take-any-until-empty; Clone identity on keys.",
    "technique": "contract-based deductive verification (Verus, ghost view + representation invariant)",
}

CHECKS["C16"] = {
    "text": "Proof by Kani/CBMC on the real crates/dvi code (scratch copy + appended harness module), loop-free per path and complete over the operand domain: for every fixed-size operation form (set_char_N/set1-4/put1-4, set/put_rule, nop, bop, eop, push, pop, right1-4, w0-4/x0-4/y0-4/z0-4, down1-4, fnt_num_N/fnt1-4, post) decode(encode(op) ++ suffix) == (op, suffix) for ALL operand values, with the minimal operand width; the decoder is total (returns Ok or the documented Truncated/InvalidOpCode error, never panics, rest is a suffix of the input) for all 256 opcodes with a fully symbolic tail at every input length up to the payload size. String/blob forms (xxx, fnt_def, pre, post_post) are bounded stand-ins and are reported separately, not counted as proved.",
    "design_ref": "DESIGN.md §5 C16",
    "note": "Values::update == an independent step function written from the DVI standard and VarRemover::next (each output operation has the same effect on h, v, pending character widths, font and stack, never uses w/x/y/z, and leaves every other operation unchanged) are proved in Verus under the assumption that positions stay within 32 bits. Bounded only: Extension/DefineFont/Preamble/EndPostamble forms (length bounds in evidence.bounded_standins). Opcode and slice length are re-materialised as constants per path so CBMC prunes the 256-arm decoder; every (opcode,length) pair a form can produce is enumerated and an assertion checks that one of them matched.",
    "technique": "Kani/CBMC bit-precise harnesses, concrete discriminant x fully symbolic operands (loop-free, complete)",
}

CHECKS["C07"] = {
    "text": "Proof of the mechanism (Verus, real code of conditional.rs extracted each run): \\ifodd == TeX odd(n) for every i32 incl. negatives; \\ifnum == the three relations (and the relation scanner itself, Ordering::parse_impl == TeX 503, is proved in unit texlang_parse_int); false_case, \\ifcase, \\or and \\else consume exactly the prefix TeX's pass_text (TeX.2021.494, nesting counted by command TAG so \\let aliases count, braces ignored) says - proved for every token sequence and every integer case number (negative / out of range selects \\else or \\fi), deliver nothing, and push/pop exactly the right branch record; \\or/\\else/\\fi validity against the branch stack; termination and absence of overflow. expansion.rs: the simple and the optimised \\expandafter are both proved to leave exactly `t1 + (one expansion step of the rest)` - the same postcondition, TeX.2021.368 - for every token sequence and every length of \\expandafter chain.",
    "design_ref": "DESIGN.md §5 C07",
    "note": "\\noexpand: the hook (noexpand_hook / noexpand_hook_finish) is proved, the VM's delivery of the suppressed token (streams.rs) is not decided. The \\expandafter proofs rest on a trusted model of expand_once (one expansion step on the first pending token, uninterpreted for every command except \\expandafter); a bounded driver (42856 strings, both implementations against a transcription of TeX's rule in the real VM) checks that model from outside. Assumed: the stream model (next_or_err pops the head of the pending sequence), Parsable stubs, get_tag returns the aliased command's tag, the four tags are distinct.",
    "technique": "contract-based deductive verification (Verus loop invariants against a recursive spec of TeX's pass_text)",
}

CHECKS["C04"] = {
    "text": "COST FUNCTIONS ONLY. Proof (Verus, real code): badness(t, s) == TeX.2021.108 for every t >= 0 and every s (64-bit operands, result in 0..=10000, no overflow, the try_into never fails), and LineBreaker::demerits == TeX.2021.859 (line penalty, break penalty sign cases, double/final hyphen, fitness-class adjacency on the real enum discriminants) for all arguments in the ranges the break loop admits; the width bookkeeping of the loop (Diffs::update_from_glue adds the glue's stretch to the slot of ITS order and nothing else, infinitely_stretchable == some fil/fill/filll total is non-zero, finite_stretchability, componentwise + and -) is proved too. This pins the demerit definition the optimality claim is stated in; it does NOT decide optimality.",
    "design_ref": "DESIGN.md §5 C04",
    "note": "NOT proved: 'breakpoints iff a feasible sequence exists' and demerit-optimality of break_line_single_attempt (a 480-line VecDeque search with a dyn logger) - an inductive Knuth-Plass invariant on that body is outside what can be annotated here. A bounded stand-in (labelled bounded, never counted) compares it with an exhaustive search over all sets of legal breakpoints on ~10^6 small paragraphs (<= 4 boxes; glue of every order, penalties, kerns, discretionaries with hyphen demerits, looseness +-1; no math); it found and led to the repair of three defects (discard-after-break TeX 837 and 840, tolerance cap TeX 863).",
    "technique": "contract-based deductive verification (Verus, nonlinear arithmetic hints) of the cost kernel",
}
CHECKS["C17"] = {
    "text": "Proof (Verus, real code) of FixWord::to_scaled == TeX.2021.568-572 store_scaled bit for bit, for every fix_word with |x| < 16 and every non-negative design size (z-reduction loop, byte-wise multiplication, negative-word correction, no overflow in any intermediate product; a fix_word outside that range - for which TeX rejects the font - is clamped into it, and the function is proved total), and of FixWord's Display == TFtoPL.2014.40-43 print_fix (digit generation with the delta stopping rule) for every fix_word.",
    "design_ref": "DESIGN.md §5 C17",
    "note": "Bounded only (labelled bounded): fix_word print -> parse round trip, compress minimal tolerance, next-larger chains, dimension-table limits in From<pl::File>. Trusted: to_be_bytes byte split, Formatter output model; common::Scaled operator contracts are proved in unit common_scaled.",
    "technique": "contract-based deductive verification (Verus loop invariant + recursive spec of TeX's loop)",
}

CHECKS["C10"] = {
    "text": "BINARY READER'S HEADER/SLICING LAYER AND WORD CODECS ONLY. Proof by Kani/CBMC on the real crates/tfm code: RawFile::deserialize + finish_deserialization return Ok or a documented error - never a panic, overflow or out-of-bounds - for EVERY byte string of every length 0..=28 (all truncated-header cases) and, as a bounded stand-in, for all 2^192 header values against files of 32..100 bytes; on Ok the twelve sections are consecutive, disjoint and cover exactly b[0..4*lf]. Every 4-byte word decoder (u32, fix_word, char_info, lig/kern instruction, extensible recipe) is total on all 2^32 words and the serializers are total on every decoded value.",
    "design_ref": "DESIGN.md §5 C10",
    "note": "NOT proved: validate_and_fix, the PL text parser, PL->TFM ('arbitrary text never panics', 'output is a readable TFM') - these are covered only by the bounded whole-file driver tfm_files (generated .tfm files and mutilated property lists through the real tftopl/pltotf; labelled bounded, never counted), which found two panics that were repaired. Known finding listed: KernAtIndex(index >= 0x8000) overflows the serializer.",
    "technique": "Kani/CBMC bit-precise harnesses with function-contract style assertions (loop-free code, fully symbolic bytes, concrete lengths)",
}
CHECKS["C11"] = {
    "text": "WORD LEVEL ONLY. Proof by Kani/CBMC over all 2^32 values of each 4-byte TFM word form: encode(decode(w)) == w for u32, fix_word and extensible recipes; for char_info and lig/kern words decode.encode is idempotent (canonical form is a fixed point) and preserves skip byte, right character, remainder and kern index; SubFileSizes <-> 24 header bytes are inverse on all 2^192 values. This catches any change to a bit layout or tag mapping.",
    "design_ref": "DESIGN.md §5 C11",
    "note": "NOT proved: the composition through the PL text printer/parser, pack_entrypoints/unpack_entrypoint, dimension-table compression, i.e. the byte-for-byte fixed point of whole files and preservation of lig/kern behaviour - covered only by the bounded whole-file driver tfm_files (every warning-free generated file reaches a canonical fixed point describing the same font; labelled bounded, never counted).",
    "technique": "Kani/CBMC exhaustive-by-symbolic-execution word codec round trips",
}

CHECKS["C15"] = {
    "text": "BOUNDED STAND-IN (not a proof, labelled as such): the real HBox::pack is run on every list of up to 3 nodes over 22 node templates x 9 targets x {exact, additional} and compared with an executable transcription of TeX.2021.649-667 that keeps one total per order of infinity. Neither Verus (array/slice patterns, Rc<dyn> in the node enum) nor Kani (does not finish on the enum's drop glue) can take the function, so no obligation is counted as discharged.",
    "design_ref": "DESIGN.md §5 C15",
    "note": "Bound: list length <= 3, dimensions from a fixed template set. Found and repaired two genuine defects (width/height swapped for boxes and rules; glue order taken from zero/cancelling totals).",
    "technique": "bounded exhaustive check of the function's contract (stand-in where the deductive verifiers cannot reach)",
}

CHECKS["C02"] = {
    "text": "Proof (Verus) on the real code of texmacro.rs and stdext's substring search: Parameter::should_trim_outer_braces_if_present returns true iff the whole argument is a single group for every token list; parse_delimited_argument consumes exactly the shortest prefix that ends with the delimiter at brace depth 0 (KMP matcher contract: reports a match iff the delimiter ends here) for every token sequence and delimiter, with the scan index arithmetic overflow-free; parse_undelimited_argument == next non-blank token or the contents of the next group (SpacesUnexpanded and finish_parsing_balanced_tokens proved against a brace-depth spec); remove_tokens_from_stream == TeX's prefix match (mismatch: one error, offending token consumed); perform_replacement pushes exactly the replacement text with every #i replaced by argument i, in order; def.rs parse_prefix_and_parameters == TeX 474-476 for every token sequence (prefix, delimiters per parameter, the trailing #{ whose brace is both delimiter and end of the parameter text, at most nine parameters, the two error recoveries); def.rs parse_replacement_text == TeX 477-479 for every token sequence (## yields one #, #k stored as parameter k-1 only when k <= number of parameters, otherwise one error with the # kept and the token read again, brace nesting, the brace of a trailing #{ appended, the closing brace consumed and not stored); Matcher::new/Search::next are proved against the prefix function. Plus a bounded stand-in (not proof): 4576 generated definitions and calls run in the real VM against an executable transcription of TeX's macro_call.",
    "design_ref": "DESIGN.md §5 C02",
    "note": "Macro::call's own loop (argument index bookkeeping, token buffer) and the \\def primitive's glue around the two parsers (reversing each token run, building the Matcher) are covered by the bounded driver only (labelled bounded in evidence). Trusted: Vec::extend over a borrowed vector / a reversed copied slice iterator (rule R18), Vec::last_mut (rule R23), the unexpanded-stream model. parse_replacement_text's non-capturing local closure is hoisted to a function (rule R22, body verbatim) and Option::filter is desugared to a match (rule R24).",
    "technique": "contract-based deductive verification (Verus loop invariant over a brace-depth spec) + bounded contract check where the verifier does not reach",
}
CHECKS["C09"] = {
    "text": "FUNCTIONS UNDER CONTRACT ONLY. Proof (Verus) that every texlang / common / stdext function under contract in C01, C02, C06, C07, C20 is free of arithmetic overflow, out-of-bounds indexing, unwrap/expect on None/Err, unreachable!/todo! and division by zero for ALL inputs satisfying its stated precondition, with every precondition discharged at each verified call site; plus bounded drivers (labelled bounded) running the real VM with the full standard library: the scanners on values at and beyond every limit, extreme register contents in every context, the inputs the property names (\\the on non-variables, errors on non-ASCII lines) in all four interaction modes, every primitive x 50 argument shapes and every pair of primitives, and pseudo-random token soups. Totality of the interpreter as a whole is NOT claimed as proved.",
    "design_ref": "DESIGN.md §5 C09",
    "note": "About 85% of the VM (run_impl dispatch, the.rs, error rendering, file location parsing, most primitives) is outside the functions under contract; shutdown-protocol consistency is not decided. The check reports only safety-kind obligations (postcondition mismatches belong to the property that owns the unit).",
    "technique": "contract-based deductive verification: Verus safety obligations (overflow/bounds/unwrap/division) of the functions under contract",
}

NOT_APPLICABLE = {
    "C01": "not built yet",
    "C02": "not built yet",
    "C03": "str-level scanner outside both verifiers' reach (Verus has no str byte reasoning; Kani on String + interner exceeds memory)",
    "C04": "not built yet",
    "C05": "simulation argument between two interpreters over HashMap/BTreeMap graph code with iterator chains; no contract within reach of Verus or Kani expresses it",
    "C07": "not built yet",
    "C08": "serde-derived code, three format crates, Rc::as_ptr and fn-pointer identity are not expressible in Verus nor tractable in Kani",
    "C09": "not built yet",
    "C10": "not built yet",
    "C11": "not built yet",
    "C12": "conservation invariant spans post_line_break + unverified break_line_single_attempt + 13-variant node enum; no contract within reach",
    "C13": "closures over &str feeding a trie; no extractable value-typed function; str reasoning unsupported",
    "C14": "hyphenate_impl (450 lines) drives two lig/kern iterators in lock-step; invariant is the C05 simulation argument squared",
    "C15": "not built yet",
    "C16": "not built yet",
    "C17": "not built yet",
    "C18": "printer and parser are str/String code end to end; the round-trip is a property of strings",
    "C19": "file trees, \\read and \\ifeof timing are VM-history behaviour over String lexers; only RawLexer::end is contract-sized",
    "C20": "not built yet",
}
