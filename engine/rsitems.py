"""Rust item locator.

Token-level scanner (strings, raw strings, byte strings, char literals vs lifetimes, nested block
comments, line comments) with brace matching.  Finds items by a path such as

    impl Scaled :: fn xn_over_d
    impl std::ops::Add<Scaled> for Scaled :: fn add
    fn badness
    struct Scaled
    impl Scaled :: fn display_no_units :: impl std::fmt::Display for D :: fn fmt

in a source file and returns the *verbatim* text span of the item (attributes and doc comments
in front of it are reported separately so the caller can decide what to drop).
"""
import re


class ItemNotFound(Exception):
    pass


class Tok:
    __slots__ = ("kind", "text", "start", "end")

    def __init__(self, kind, text, start, end):
        self.kind = kind  # 'ws','comment','doc','str','char','life','ident','num','punct'
        self.text = text
        self.start = start
        self.end = end

    def __repr__(self):
        return "Tok(%s,%r)" % (self.kind, self.text)


_ident_re = re.compile(r"[A-Za-z_][A-Za-z0-9_]*")
_num_re = re.compile(r"[0-9][A-Za-z0-9_]*(\.[0-9][A-Za-z0-9_]*)?")


def tokenize(src):
    toks = []
    i = 0
    n = len(src)
    while i < n:
        c = src[i]
        if c.isspace():
            j = i + 1
            while j < n and src[j].isspace():
                j += 1
            toks.append(Tok("ws", src[i:j], i, j))
            i = j
            continue
        if src.startswith("//", i):
            j = src.find("\n", i)
            if j < 0:
                j = n
            text = src[i:j]
            kind = "doc" if (text.startswith("///") and not text.startswith("////")) or text.startswith("//!") else "comment"
            toks.append(Tok(kind, text, i, j))
            i = j
            continue
        if src.startswith("/*", i):
            depth = 1
            j = i + 2
            while j < n and depth > 0:
                if src.startswith("/*", j):
                    depth += 1
                    j += 2
                elif src.startswith("*/", j):
                    depth -= 1
                    j += 2
                else:
                    j += 1
            toks.append(Tok("comment", src[i:j], i, j))
            i = j
            continue
        # raw strings r"..", r#".."#, br#".."#
        m = re.match(r"b?r(#*)\"", src[i:i + 40])
        if m:
            hashes = m.group(1)
            endmark = '"' + hashes
            j = src.find(endmark, i + m.end())
            if j < 0:
                j = n
            else:
                j += len(endmark)
            toks.append(Tok("str", src[i:j], i, j))
            i = j
            continue
        if c == '"' or (c == "b" and i + 1 < n and src[i + 1] == '"'):
            j = i + (2 if c == "b" else 1)
            while j < n and src[j] != '"':
                if src[j] == "\\":
                    j += 1
                j += 1
            j += 1
            toks.append(Tok("str", src[i:j], i, j))
            i = j
            continue
        if c == "'" or (c == "b" and i + 1 < n and src[i + 1] == "'"):
            k = i + (1 if c == "b" else 0)
            # char literal or lifetime
            if k + 1 < n and src[k + 1] == "\\":
                j = k + 2
                while j < n and src[j] != "'":
                    j += 1
                j += 1
                toks.append(Tok("char", src[i:j], i, j))
                i = j
                continue
            if k + 2 < n and src[k + 2] == "'":
                toks.append(Tok("char", src[i:k + 3], i, k + 3))
                i = k + 3
                continue
            # multi-byte char literal like 'é' is covered above (python str index); else lifetime
            m = _ident_re.match(src, k + 1)
            if m:
                toks.append(Tok("life", src[i:m.end()], i, m.end()))
                i = m.end()
                continue
            toks.append(Tok("punct", c, i, i + 1))
            i += 1
            continue
        m = _ident_re.match(src, i)
        if m:
            toks.append(Tok("ident", m.group(0), i, m.end()))
            i = m.end()
            continue
        m = _num_re.match(src, i)
        if m:
            # do not swallow `1..2` range as a float
            text = m.group(0)
            if "." in text and src.startswith("..", i + text.index(".")):
                text = text[: text.index(".")]
            toks.append(Tok("num", text, i, i + len(text)))
            i += len(text)
            continue
        toks.append(Tok("punct", c, i, i + 1))
        i += 1
    return toks


OPEN = {"(": ")", "[": "]", "{": "}"}
CLOSE = {")": "(", "]": "[", "}": "{"}


def match_close(toks, idx):
    """toks[idx] is an opening bracket; return index of its matching closer."""
    depth = 0
    for j in range(idx, len(toks)):
        t = toks[j]
        if t.kind != "punct":
            continue
        if t.text in OPEN:
            depth += 1
        elif t.text in CLOSE:
            depth -= 1
            if depth == 0:
                return j
    raise ItemNotFound("unbalanced bracket at offset %d" % toks[idx].start)


def norm(s):
    """normalise whitespace for header comparison"""
    s = re.sub(r"\s+", " ", s.strip())
    s = re.sub(r"\s*([<>,:&()\[\]])\s*", r"\1", s)
    return s


ITEM_KW = ("fn", "struct", "enum", "trait", "const", "static", "type", "impl", "mod", "macro_rules", "union")
QUALIFIERS = ("pub", "const", "unsafe", "async", "extern", "default")


class Item:
    def __init__(self, src, toks, kw_idx, start_idx, end_idx, attrs_start_idx, kind, name, header):
        self.src = src
        self.toks = toks
        self.kw_idx = kw_idx
        self.start_idx = start_idx  # first token of item proper (visibility / qualifiers)
        self.end_idx = end_idx  # last token (inclusive)
        self.attrs_start_idx = attrs_start_idx  # first attribute / doc token
        self.kind = kind
        self.name = name
        self.header = header  # for impl: normalised header text

    @property
    def text(self):
        return self.src[self.toks[self.start_idx].start:self.toks[self.end_idx].end]

    @property
    def attrs_text(self):
        if self.attrs_start_idx == self.start_idx:
            return ""
        return self.src[self.toks[self.attrs_start_idx].start:self.toks[self.start_idx].start]

    @property
    def line(self):
        return self.src.count("\n", 0, self.toks[self.start_idx].start) + 1

    def body_range(self):
        """(open_idx, close_idx) of the `{..}` body, or None"""
        d = 0
        for j in range(self.kw_idx, self.end_idx + 1):
            t = self.toks[j]
            if t.kind != "punct":
                continue
            if t.text in "([":
                d += 1
            elif t.text in ")]":
                d -= 1
            elif t.text == "{" and d == 0:
                return (j, match_close(self.toks, j))
            elif t.text == ";" and d == 0:
                return None
        return None


def _sig(toks, i):
    """skip ws/comments forward"""
    while i < len(toks) and toks[i].kind in ("ws", "comment", "doc"):
        i += 1
    return i


def items_in(src, toks, lo, hi):
    """Yield Items whose keyword sits at brace depth 0 within toks[lo:hi]."""
    i = lo
    out = []
    while i < hi:
        t = toks[i]
        if t.kind == "punct" and t.text in OPEN:
            # skip nested bracket groups that are not item bodies (attributes etc.)
            i = match_close(toks, i) + 1
            continue
        if t.kind == "ident" and t.text in ITEM_KW:
            kw = t.text
            # `const` may be a qualifier (const fn) ; `impl` may appear in types -- only at item position
            # determine item position: previous significant token must be start, `}`, `;`, `]` (attr), or a qualifier/visibility
            p = i - 1
            while p >= lo and toks[p].kind in ("ws", "comment", "doc"):
                p -= 1
            ok = p < lo or (toks[p].kind == "punct" and toks[p].text in "};])") or (
                toks[p].kind == "ident" and toks[p].text in QUALIFIERS) or toks[p].kind == "str"
            if toks[p].kind == "punct" and toks[p].text == ")" and p >= lo:
                # could be pub(crate) -- check
                q = p
                depth = 0
                while q >= lo:
                    if toks[q].kind == "punct" and toks[q].text == ")":
                        depth += 1
                    elif toks[q].kind == "punct" and toks[q].text == "(":
                        depth -= 1
                        if depth == 0:
                            break
                    q -= 1
                q2 = q - 1
                while q2 >= lo and toks[q2].kind == "ws":
                    q2 -= 1
                ok = q2 >= lo and toks[q2].kind == "ident" and toks[q2].text == "pub"
            if not ok:
                i += 1
                continue
            j = _sig(toks, i + 1)
            if kw == "const" and j < hi and toks[j].kind == "ident" and toks[j].text in ("fn", "unsafe", "extern", "async"):
                i += 1
                continue
            if kw == "unsafe" or kw == "default":
                i += 1
                continue
            name = None
            header = None
            if kw == "macro_rules":
                j = _sig(toks, j + 1) if toks[j].text == "!" else j
                name = toks[j].text
            elif kw == "impl":
                pass
            else:
                if j < hi and toks[j].kind == "ident":
                    name = toks[j].text
                elif kw == "const" and toks[j].text == "_":
                    name = "_"
            # find end
            d = 0
            k = i + 1
            end = None
            brace_first = None
            if kw in ("const", "static", "type"):
                while k < hi:
                    tk = toks[k]
                    if tk.kind == "punct":
                        if tk.text in OPEN:
                            k = match_close(toks, k)
                        elif tk.text == ";":
                            end = k
                            break
                    k += 1
            else:
                while k < hi:
                    tk = toks[k]
                    if tk.kind == "punct":
                        if tk.text in "([":
                            k = match_close(toks, k)
                        elif tk.text == "{":
                            brace_first = k
                            end = match_close(toks, k)
                            break
                        elif tk.text == ";":
                            end = k
                            break
                    k += 1
                if kw == "macro_rules" and end is not None and brace_first is None:
                    pass
                if kw == "struct" and brace_first is None and end is not None:
                    pass
            if end is None:
                raise ItemNotFound("could not find end of item %s %s" % (kw, name))
            if kw == "impl":
                hdr_end = brace_first if brace_first is not None else end
                header = norm(src[toks[i].end:toks[hdr_end].start])
            # find start: walk back over qualifiers / visibility
            s = i
            while True:
                p = s - 1
                while p >= lo and toks[p].kind == "ws":
                    p -= 1
                if p >= lo and toks[p].kind == "ident" and toks[p].text in QUALIFIERS:
                    s = p
                    continue
                if p >= lo and toks[p].kind == "str":  # extern "C"
                    s = p
                    continue
                if p >= lo and toks[p].kind == "punct" and toks[p].text == ")":
                    # pub(crate)
                    q = p
                    while q >= lo and not (toks[q].kind == "punct" and toks[q].text == "("):
                        q -= 1
                    q2 = q - 1
                    while q2 >= lo and toks[q2].kind == "ws":
                        q2 -= 1
                    if q2 >= lo and toks[q2].kind == "ident" and toks[q2].text == "pub":
                        s = q2
                        continue
                break
            # attributes and doc comments
            a = s
            while True:
                p = a - 1
                while p >= lo and toks[p].kind in ("ws", "comment"):
                    p -= 1
                if p >= lo and toks[p].kind == "doc":
                    a = p
                    continue
                if p >= lo and toks[p].kind == "punct" and toks[p].text == "]":
                    # find matching [
                    q = p
                    depth = 0
                    while q >= lo:
                        if toks[q].kind == "punct" and toks[q].text == "]":
                            depth += 1
                        elif toks[q].kind == "punct" and toks[q].text == "[":
                            depth -= 1
                            if depth == 0:
                                break
                        q -= 1
                    q2 = q - 1
                    while q2 >= lo and toks[q2].kind == "ws":
                        q2 -= 1
                    if q2 >= lo and toks[q2].kind == "punct" and toks[q2].text == "!":
                        break  # inner attribute, not ours
                    if q2 >= lo and toks[q2].kind == "punct" and toks[q2].text == "#":
                        a = q2
                        continue
                break
            out.append(Item(src, toks, i, s, end, a, kw, name, header))
            i = end + 1
            continue
        i += 1
    return out


def find_item(src, path, toks=None):
    """path: list of components like 'impl Scaled', 'fn xn_over_d'.  Returns Item.
    When several items match a component (e.g. two `impl Glue` blocks) the first one in which the REST of the path
    resolves is taken (an explicit ordinal suffix `#n` pins one)."""
    if toks is None:
        toks = tokenize(src)

    def resolve(k, lo, hi):
        comp = path[k].strip()
        if comp.startswith("impl") and not comp[4:5].isalnum():
            kw, rest = "impl", comp[4:].strip()
        else:
            kw, _, rest = comp.partition(" ")
            rest = rest.strip()
        ordinal = None
        m = re.search(r"\s#(\d+)$", rest)
        if m:
            ordinal = int(m.group(1))
            rest = rest[: m.start()].strip()
        cands = []
        for it in items_in(src, toks, lo, hi):
            if it.kind != kw:
                continue
            if kw == "impl":
                if it.header == norm(rest):
                    cands.append(it)
            elif it.name == rest:
                cands.append(it)
        if ordinal is not None:
            cands = cands[ordinal - 1:ordinal]
        if not cands:
            raise ItemNotFound("item %r not found (component %r)" % (" :: ".join(path), comp))
        if k == len(path) - 1:
            return cands[0]
        last = None
        for item in cands:
            br = item.body_range()
            if br is not None:
                lo2, hi2 = br[0] + 1, br[1]
            else:
                lo2, hi2 = item.end_idx, item.end_idx
            try:
                return resolve(k + 1, lo2, hi2)
            except ItemNotFound as e:
                last = e
        raise last

    return resolve(0, 0, len(toks))
