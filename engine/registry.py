"""Which units decide which property, and what stays unverified around them (goes into evidence)."""

SAFETY_KINDS = {"overflow", "div-by-zero", "bounds", "precondition", "shift", "assertion"}

PROPS = {
    "C06": {
        "level": "proof",
        "verus": ["common_scaled"],
        "kani": [],
        "unverified_callers": [
            "texlang-stdlib/src/the.rs (token production from the printed string)",
            "texlang/src/parse/keyword.rs parse_keyword",
            "TexlangState::em_width / ex_height providers",
        ],
        "assumptions": [],
    },
}


def props():
    return PROPS
