"""Which units decide which property, and what stays unverified around them (goes into evidence)."""

SAFETY_KINDS = {"overflow", "div-by-zero", "bounds", "precondition", "shift", "assertion"}

PROPS = {
    "C06": {
        "witness_always": ["common_scaled", "texlang_parse_num", "stdlib_totality"],
        "witness_bound": {"common_scaled": "print->scan round trip: ALL 2^16 fractions x 9 integer parts x both signs (display_no_units / parse_no_units on the real code); boundary lattices for the arithmetic functions",
                      "stdlib_totality": "real VM + stdlib against values computed by the driver with TeX's integer algorithms: \\advance / \\multiply / \\divide on \\count over an 11 x 10 grid of operands incl. the i32 limits; \\advance on glue over 7 x 7 x 2 stretch / shrink components (TeX 1239); 12 alphabetic constants; 613 programs with INTERNAL quantities (the trusted oracle parse_internal_number of the Verus units, run for real): \\count, \\dimen, \\skip registers, \\chardef and \\mathchardef names and \\catcode entries used as integer, as dimension, as glue and as the unit after a decimal coefficient, each with 0-3 signs, 14 values per kind up to the limits; \\multiply / \\divide on \\dimen and \\skip (every component, truncation toward zero); the nine units and `true`; codes beyond their range (\\catcode, \\chardef, \\mathchardef: the documented error, never a value taken modulo 256)"},
        "level": "proof",
        "verus": ["common_scaled", "texlang_parse_int", "texlang_parse_keyword", "texlang_parse_dimen", "texlang_parse_glue", "stdlib_math", "stdlib_mathvar"],
        "kani": [],
        "unverified_callers": [
            "texlang-stdlib/src/the.rs (token production from the printed string)",
            "parse_internal_number and parse_character (trusted oracles); the provided method Parsable::parse (trusted to delegate to parse_impl); parse_keyword and the unit keyword are PROVED (unit texlang_parse_keyword) over two trusted std stubs: first character of a &str and the &str after it (rule R20), char::to_ascii_lowercase/uppercase",
            "TexlangState::em_width / ex_height providers",
            "`<digits><space><point>` (e.g. `1 .5pt`): TeX ends the number at the space, texcraft reads a fraction - not a constant of TeX's grammar, left open by constant_spec (DESIGN 9)",
        ],
        "assumptions": [],
    },
}


PROPS["C01"] = {
    "witness_fns": {"stdext_groupingmap": ["insert", "end_group", "begin_group"]},
    "witness_always": ["stdlib_scoping"],
    "witness_bound": {"stdlib_scoping": "real VM + full stdlib vs a stack-of-snapshots model: every program of <= 3 operations, of 4 operations opening a group in the first two, of 5 starting with two nested groups (thorough: all 345k programs of <= 5) over 25 operations: {, }, local/global \\count, \\advance, \\countdef alias, \\def of a control sequence and of an ACTIVE character, \\def behind several prefixes (\\long, \\long\\global, \\global\\long\\outer, \\outer\\long\\global), \\let (also of a name to itself), \\catcode, \\globaldefs in {1,-1,0}; separately \\dimen, \\skip and \\toks registers and the integer parameter \\endlinechar next to \\count (each kind has its own save-stack slot) with \\advance / \\multiply / \\divide whose result equals the old value (by 0, by 1: with \\global the value must still become global): 23239 histories of <= 3 operations, of 4 starting with a group, of 5 starting with two nested groups, over 20 operations; separately two elements of the same array variable (\\catcode of two characters), a \\chardef'd name and an active character redefined by \\let / \\def, each locally and globally: 13033 histories of <= 4 operations and of 5 starting with two groups, over 11 operations; separately the CURRENT FONT over every history of <= 6 steps of {, }, three local and one \\global font selector; all values read after every step"},
    "level": "proof",
    "verus": ["stdext_groupingmap", "texlang_savestack", "texlang_cmdmap", "texlang_vmgroups", "stdlib_prefix", "stdlib_mathvar", "stdlib_defprim"],
    "kani": [],
    "unverified_callers": [
        "texlang/src/vm/mod.rs VM::run_impl dispatch (VM::begin_group/end_group are proved: three stacks in lockstep, unwraps safe)",
        "TypedVariable::set is PROVED (texlang_savestack): the variable gets the new value, no other variable of the type moves, inside a group the save stack is told about the OVERWRITTEN value with the caller's scope (update_save_stack's contract), outside any group nothing is recorded; the variable's mutable getter is a function pointer field, modelled as an opaque value whose call is a trusted lens (rule R30), and SupportedType::update_save_stack is trusted to delegate to the proved free function for every type with a save-stack field (macro-generated). SaveStackMap::restore is PROVED too: every variable recorded in the level gets its saved value back, every other variable of the type keeps its value, the save stack is untouched, whatever order the HashMap is iterated in (rule R9: take-any-until-empty). The macro-generated SaveStackElement::restore (calls restore on each type's field) and VM::end_group's use of it stay covered by the bounded driver stdlib_scoping only",
        "font save stack (inlined in run_impl)",
        "supported_type_impl! macro: the closures passed as map_getter",
        "impl BackingContainer for Vec<Option<V>>: get, remove and insert are proved (Vec::resize_with(n, Default::default) bound to a trusted stub, rule R19); get_mut is a trusted declaration with the trait contract",
        "\\def/\\let/\\countdef/\\catcode primitives' own parsing",
    ],
    "assumptions": ["Clone is the identity and the std hash/eq model holds for the key types (usize, char, CsName, TypedVariable)"],
}
PROPS["C20"] = {
    "level": "proof",
    "verus": ["stdext_groupingmap", "stdext_kmp"],
    "kani": [],
    "witness_always": ["stdext_groupingmap"],
    "witness_bound": {"stdext_groupingmap": "scoped map: every history of length <= 6 over 2 keys x 2 values, both backing containers; KMP: every pattern of length <= 6 / text <= 11 over 2 letters and pattern <= 4 / text <= 8 over 3 letters; iter_all -> FromIterator replay: every history of length <= 4 x every continuation of length <= 2 + closing all groups, rebuilt map against the model of the original; interner under a constant hasher (all hashes collide): 36 words incl. empty and non-ASCII, interned twice in 36 rotations, key equality / resolve / get checked after every step; every word three times in a row from the first call on, under the constant and the standard hasher (keys count up from 1)"},
    "unverified_callers": [
        "IterAll / FromIterator replay (GAT iterators, rejected by Verus) and the Interner (str/String): NOT proved, covered by the bounded driver only",
        "Tag::new / StaticTag uniqueness across threads - concurrency, not applicable to either verifier",
    ],
    "assumptions": ["Clone is the identity and the std hash/eq model holds for the key types"],
}


PROPS["C16"] = {
    "witness_always": ["dvi_values"],
    "witness_bound": {"dvi_values": "VarRemover / Values::update: every operation sequence of length <= 5 over 17 templates (4 variables, unbalanced push/pop, page starts, rules, chars), independent position tracker before vs after; string / blob forms (xxx of every length 0..300 and at the 2^16 boundaries, fnt_def over all area / name lengths x 8 font numbers at the width boundaries, pre with every comment length; 2640 operations, printable ASCII): round trip with suffix, minimal operand width, every proper prefix rejected without panic"},
    "level": "proof",
    "verus": ["dvi_values"],
    "kani": ["dvi_codec"],
    "unverified_callers": [
        "String::from_utf8_lossy on non-UTF-8 comment/area/name bytes (lossy by design; string forms only bounded)",
        "dvi-bin/src/dvitools.rs command line glue",
    ],
    "assumptions": ["CBMC bit-precise semantics of the Rust MIR that Kani generates for crates/dvi"],
}


PROPS["C07"] = {
    "witness_always": ["stdlib_expansion"],
    "witness_bound": {"stdlib_expansion": "2202 generated conditional trees of depth <= 3 (\\iftrue/\\iffalse/\\ifnum/\\ifodd incl. negative operands/\\ifcase -1..3, \\let aliases, unbalanced braces in skipped text, blanks and relations produced by macro expansion) against a tree evaluator; every token string of length <= 6 over {\\expandafter, three macros, a letter, a macro with a DELIMITED parameter (which grabs tokens unexpanded, so the moment of each expansion shows in the output)} (42856 strings without runaway arguments) expanded by BOTH \\expandafter implementations against a transcription of TeX's expand-once rule; every string of length <= 5 over {\\expandafter, \\noexpand, two macros, a letter, the delimited macro} (7969 strings) against a model that carries TeX's dont_expand MARK (set by \\noexpand, consumed by the next read, dropped by unexpanded reads): one known finding (mark lost when \\noexpand is expanded through \\expandafter, 550 strings of that class; 14 more not judged because the deviation turns them into runaway arguments)"},
    "level": "proof",
    "verus": ["stdlib_cond", "stdlib_expandafter", "texlang_streams", "texlang_parse_int"],
    "kani": [],
    "unverified_callers": [
        "Condition::build_if_command closure (evaluate -> true_case/false_case dispatch) and the VM expansion loop",
        "Parsable for (i32, Ordering, i32) (a macro-generated tuple impl) is assumed to return an arbitrary triple; its three components are proved separately in unit texlang_parse_int (i32 == parse_integer, Ordering == TeX 503: < = > of category 12 after skipping blanks, else Missing = inserted)",
        "expansion.rs: both \\expandafter implementations are PROVED to satisfy the same postcondition (TeX's rule) over a trusted model of ExpandedStream::expand_once (one step on the first pending token; on an \\expandafter token that step is the rule itself - the induction hypothesis); noexpand_hook is proved (fast path: nothing happens unless the tag is \\noexpand's; slow path: the next token is taken unexpanded and handed back); how the VM then delivers that token is PROVED in unit texlang_streams: stream::expand_once == `expand_step` (TeX 366-367: nothing pending -> false; a token that is not an expansion primitive or a macro is PUT BACK intact and false is returned; for an expansion primitive the override hook is asked first - Override(o): o is pushed and true returned, without running the primitive -, otherwise the primitive runs between stack_push and stack_pop, the pop also on failure; a macro goes to Macro::call) and stream::next_expanded delivers only tokens that are not expandable under the command map in force or that the override hook handed over (partial correctness: TeX programs need not terminate, the function carries exec_allows_no_decreases_clause). Function pointers are opaque values there and calling one is a trusted stub (rule R30); the effects of the hook, of a primitive and of Macro::call on the VM are oracles",
        "command tags preserved by \\let (assumed: tag_of reads the tag of the aliased command)",
    ],
    "assumptions": ["the four conditional tags are pairwise distinct (StaticTag uniqueness, C20 tag clause)", "fewer than 2^31 - 65536 pending tokens (depth counter is an i32)"],
}


PROPS["C04"] = {
    "level": "proof",
    "verus": ["kp_cost"],
    "kani": [],
    "witness_always": ["kp_search"],
    "witness_fns": {"kp_search": ["break_line_single_attempt", "demerits", "badness", "num_nodes_for_next_class"]},
    "witness_bound": {"kp_search": "break_line_single_attempt vs exhaustive search over ALL sets of legal breakpoints under an independent transcription of TeX 108/851-855/859/837: every paragraph of <= 4 boxes (3 widths) joined by 18 separators (finite glue, penalty +-50 / 10000 / -10000 before glue, explicit kern before glue, none, font kern after glue, penalty -20000, fill / filll glue, five discretionary shapes: hyphen, explicit hyphen + glue, with post-break box, replacing the next box, empty pre-break with a post-break box) x 6 line-width sequences (one, two and three different widths) x tolerance {200, 10000, 20000} x 2 parameter sets (the second with \\hyphenpenalty 120 / \\exhyphenpenalty 30, adj_demerits 3000, line_penalty 50) (about 6.7 x 10^6 paragraphs in the quick tier: <= 3 boxes exhaustively, the 4-box space 1 in 5, the 5-box space 1 in 1201; thorough: 4 boxes exhaustively and the 5-box space 1 in 37); hyphen demerits included; \\looseness +1 (with \\hyphenpenalty 10000) / -1 on a sixth of the paragraphs (TeX 875: optimum's line count + looseness when feasible, the cheapest such sequence; else the pass fails); that sixth also with a FINITE \\parfillskip (last line with its own fitness class); no math or emergency pass"},
    "unverified_callers": [
        "LineBreaker::break_line_single_attempt (480-line active-node search): feasibility iff and demerit-optimality are NOT proved; they are covered only by the bounded driver kp_search (labelled bounded, not counted)",
        "the two call sites of badness (shortfall > 0 / -shortfall) and of demerits (penalty within +-10000) sit inside that function",
        "break_line_all_attempts, num_nodes_for_next_class, post_line_break",
    ],
    "assumptions": ["demerit parameters within +-9e8, line_penalty within +-1e9 (TeX itself overflows beyond)"],
}
PROPS["C17"] = {
    "witness_always": ["tfm_fixword"],
    "witness_bound": {"tfm_fixword": "compress: every non-empty subset of {0..11} x scale {1,3} x class limit 1..4 against brute-force minimal tolerance, and 25000 (thorough: 200000) pseudo-random multisets of up to 27 values (duplicates, negative values, zero, scales up to 2^26, the two ends of the fix_word range) x class limit 1..8 with the minimal tolerance found over all pairwise differences; next-larger: all 625 functional graphs on 4 characters; 16 hand-written forms of a real (repeated signs, missing integer part or fraction, seven-digit fractions at a rounding boundary) against PLtoTF 62-66; fix_word print/parse through the real PL reader, decomposed (the fraction digits depend only on |x| mod 2^20): every 7th (thorough: EVERY) fraction x 3 integer parts x both signs, every integer part 0..2047 x 4 fractions x both signs, and -2048.0; to_scaled: boundary lattice"},
    "level": "proof",
    "verus": ["tfm_fixword"],
    "kani": [],
    "unverified_callers": [
        "impl Display for FixWord / impl Parse for FixWord (print/parse round trip) - NOT decided yet",
        "compress (HashSet/sort/iterator code) - NOT decided yet",
        "NextLargerProgram::{new,get} - NOT decided yet",
        "callers of to_scaled must pass |fix_word| < 16 and design size >= 0 (validate_and_fix is outside the verified set)",
    ],
    "assumptions": ["i32::to_be_bytes is the big-endian two's-complement byte split"],
}


PROPS["C10"] = {
    "level": "proof",
    "verus": [],
    "kani": ["tfm_raw"],
    "witness_always": ["tfm_files"],
    # C10 judges the panics and the readability of what PL -> TFM writes; what the round trip preserves is C11's
    "witness_fns": {"tfm_files": ["tfm_to_pl", "pl_to_tfm", "round_trip_panic", "pack_entrypoints_panic"]},
    "witness_bound": {"tfm_files": "whole files through the real tftopl / pltotf algorithms: 8000 (thorough: 60000) generated .tfm files (half well-formed: small section sizes or - one in 40 - 255 characters with every dimension table filled to its limit, lig/kern programs, lists, extensible recipes, headers of 2..296 words with CODINGSCHEME / FAMILY strings of every length up to the full 39 / 19 characters and every face byte, a SEVENBITSAFEFLAG claim in a third of them, zero and non-zero extra header words; one in 5 spreads 10-20 characters over 60-120 codes so that 7-bit and 8-bit characters meet in lig/kern steps, links and recipes; half noisy / truncated / bit-flipped, headers up to 309 words) and ~5 property-list texts per file (the printed list, a truncation, a one-character mutation, a number replaced by one beyond every limit or a character beyond Latin-1, one of 19 appended properties: labels without instructions, skips past the end, header / parameter numbers at their limits, over-long strings ...); every .tfm written for any of these texts must be accepted by the TFM reader; 352 texts with dimensions / parameters / kerns / design size at the ends of the fix_word range and tables beyond their limits spanning the whole range; a font of more than 32767 words and 100000 nested parentheses (both known findings; the second in a child process); separately LIGTABLEs of 32508..66000 instructions and 254..256 characters each with its own label (up to 256 entry-point redirections, with and without a boundary character); C10: no panic in either direction; C11: every warning-free file converts to a canonical file on which a further round trip is the byte-for-byte identity without warnings and which describes the same font (PL equal up to header defaults and unreachable lig/kern instructions; per character the VALUES of width/height/depth/italic, the next-larger link and the extensible recipe, and the parameters, read back from the original and from the canonical bytes, are equal; the header - checksum, design size, extra words, and CODINGSCHEME / FAMILY / FACE as this driver reads them off the ORIGINAL BYTES itself - is the same in the canonical file); lig/kern programs of 200..520 instructions (at, just below and above 255/256), with and without a boundary character, labels at the ends, around 255/256 and at random positions (120 property lists): every label still points at ITS instruction after PL -> TFM -> PL, no warnings, canonical fixed point"},
    "unverified_callers": [
        "validate_and_fix (480 lines over HashMap<Char,..>), from_raw_file iterator glue, Header::deserialize string handling",
        "the whole PL text side: pl/cst.rs, pl/ast.rs, From<pl::File> for File, serialize_char_infos - 'arbitrary text never panics' and 'PL->TFM output is a readable TFM' are NOT decided",
    ],
    "assumptions": ["files longer than 100 bytes differ from the explored ones only in the number of ignored/sliced trailing bytes (header logic reads 24 bytes + the length)"],
}
PROPS["C11"] = {
    "level": "proof",
    "verus": [],
    "kani": ["tfm_raw"],
    "witness_always": ["tfm_files"],
    # C11 judges what the round trip preserves (and panics on that path); the other panics and the readability of PL -> TFM output are C10's
    "witness_fns": {"tfm_files": ["round_trip", "round_trip_panic", "pack_entrypoints", "pack_entrypoints_panic"]},
    "witness_bound": {"tfm_files": "whole files through the real tftopl / pltotf algorithms: 8000 (thorough: 60000) generated .tfm files (half well-formed: small section sizes or - one in 40 - 255 characters with every dimension table filled to its limit, lig/kern programs, lists, extensible recipes, headers of 2..296 words with CODINGSCHEME / FAMILY strings of every length up to the full 39 / 19 characters and every face byte, a SEVENBITSAFEFLAG claim in a third of them, zero and non-zero extra header words; one in 5 spreads 10-20 characters over 60-120 codes so that 7-bit and 8-bit characters meet in lig/kern steps, links and recipes; half noisy / truncated / bit-flipped, headers up to 309 words) and ~5 property-list texts per file (the printed list, a truncation, a one-character mutation, a number replaced by one beyond every limit or a character beyond Latin-1, one of 19 appended properties: labels without instructions, skips past the end, header / parameter numbers at their limits, over-long strings ...); every .tfm written for any of these texts must be accepted by the TFM reader; 352 texts with dimensions / parameters / kerns / design size at the ends of the fix_word range and tables beyond their limits spanning the whole range; a font of more than 32767 words and 100000 nested parentheses (both known findings; the second in a child process); separately LIGTABLEs of 32508..66000 instructions and 254..256 characters each with its own label (up to 256 entry-point redirections, with and without a boundary character); C10: no panic in either direction; C11: every warning-free file converts to a canonical file on which a further round trip is the byte-for-byte identity without warnings and which describes the same font (PL equal up to header defaults and unreachable lig/kern instructions; per character the VALUES of width/height/depth/italic, the next-larger link and the extensible recipe, and the parameters, read back from the original and from the canonical bytes, are equal; the header - checksum, design size, extra words, and CODINGSCHEME / FAMILY / FACE as this driver reads them off the ORIGINAL BYTES itself - is the same in the canonical file); lig/kern programs of 200..520 instructions (at, just below and above 255/256), with and without a boundary character, labels at the ends, around 255/256 and at random positions (120 property lists): every label still points at ITS instruction after PL -> TFM -> PL, no warnings, canonical fixed point"},
    "unverified_callers": [
        "WORD LEVEL ONLY: pl::File::display / from_pl_source_code (text), From<pl::File> for File and back, pack_entrypoints/unpack_entrypoint, table compression - the composition to a byte-for-byte fixed point is NOT decided",
    ],
    "assumptions": [],
}


PROPS["C15"] = {
    "level": "other",
    "verus": [],
    "kani": [],
    "witness_always": ["bw_pack"],
    "witness_bound": {"bw_pack": "every list of <= 3 nodes over 22 node templates (chars incl. missing, rules, kerns, shifted h/v boxes, penalty, glue of all four orders with positive, zero, negative and cancelling amounts) x 9 targets x {exact, additional} = 201k calls (thorough tier: every list of <= 4 nodes, 4.4M calls) of the real HBox::pack, plus 60000 pseudo-random lists of 4..9 nodes with dimensions outside the templates, against a per-order transcription of TeX.2021.649-667 (glue ratio checked as the signed equation natural width + ratio x total == box width)"},
    "explanation": "BOUNDED STAND-IN, NOT A PROOF. HBox::pack cannot be brought within either verifier's reach: Verus rejects the array/slice patterns the function is written in and the Rc<dyn Whatsit> variant of the node enum; Kani/CBMC did not finish within 15 minutes on the node enum's drop glue even for one-element lists. The contract (natural width = sum of item widths; height/depth = maxima with shifted boxes adjusted; glue order = highest order with non-zero total; ratio fills the box exactly; overfull shrinks by exactly its shrinkability; unset without the needed glue) is evaluated as an executable predicate on an exhaustively enumerated small domain of real calls.",
    "unverified_callers": ["FontRepo implementations (assumed total)", "lists longer than 3 nodes, Mark/Insertion/Adjust/Math nodes (todo!() in the code)"],
    "assumptions": [],
}


PROPS["C02"] = {
    "level": "proof",
    "verus": ["texlang_macro", "texlang_macrocall", "stdlib_def", "stdlib_defprim", "stdext_kmp", "texlang_streams"],
    "kani": [],
    "witness_always": ["texlang_macro"],
    "witness_bound": {"texlang_macro": "real VM vs an executable transcription of TeX's macro_call: prefix {none, one token} x parameters {undelimited, delimited by 1-2 tokens, trailing #{} x 1-2 parameters x 10 argument shapes (empty, token, group, several groups, nested groups, leading spaces) x 3-4 replacement texts, plus 3 to 9 parameters (mixed kinds, every parameter used, reversed and repeated, with and without a trailing #{) = 4618 definitions+calls, tokens after the call included"},
    "unverified_callers": [
        "PROVED: should_trim_outer_braces_if_present, parse_delimited_argument, parse_undelimited_argument (+ SpacesUnexpanded::parse_impl, finish_parsing_balanced_tokens), remove_tokens_from_stream, perform_replacement, the KMP matcher. def.rs parse_prefix_and_parameters (== TeX 474-476 incl. #{ and the two error recoveries, never more than nine parameters) and parse_replacement_text (== TeX 477-479: ## -> one #, #k only for k <= number of parameters, illegal parameter number = one error + the # kept + the offending token read again, nested braces, the brace of a trailing #{ appended; its local closure `push` is hoisted to a function by rule R22 and proved; Vec::last_mut is a trusted stub). Macro::call and Parameter::parse_argument (unit texlang_macrocall, over the contracts above, ASSUMED there with the same text): a call whose prefix matches is replaced by the replacement text with #i -> the i-th argument, each parameter binding what TeX binds (bind1: undelimited = next non-blank token or the contents of the next group; delimited = shortest run before the FIRST position where the delimiter ends at brace depth 0 (1 for #{), outer braces dropped iff the run is a single group), the rest of the input untouched; a prefix mismatch = one error, the offending token consumed, no expansion; the index arithmetic (start+1, len-1), the range indexing and the unwrap of the argument slices cannot panic. parse_and_set_macro, def_primitive_fn, gdef_primitive_fn (unit stdlib_defprim, over the two scanners ASSUMED with the same text): \\def / \\gdef consume the name, the parameter text and the replacement text and bind the name to a Macro holding exactly what was scanned - prefix, one parameter per #n with its delimiter and KMP table, the replacement text with every token run reversed (the representation Macro::call's contract interprets) -, \\gdef globally, no other name touched, nothing defined when the name is missing; lemma_def_builds_callable_macro: that macro satisfies Macro::call's well-formedness precondition. The map / collect over the raw parameters and the iter_mut loop are desugared by rules R28 / R29 over trusted stubs (take the first element of a Vec, Vec::reverse). BOUNDED (witness driver, not proof): the name parser <Option<CommandRef> as Parsable> (trusted oracle), command::Map::insert_macro's Rc wrapping (insert itself proved in texlang_cmdmap)",
        "\\long/\\outer, the VM expansion loop",
    ],
    "assumptions": [],
}
PROPS["C09"] = {
    "level": "proof",
    "only_kinds": ["overflow", "div-by-zero", "bounds", "precondition", "shift", "assertion", "concrete-counterexample", "kani"],
    "verus": ["common_scaled", "texlang_parse_int", "texlang_parse_keyword", "texlang_parse_dimen", "texlang_parse_glue", "stdlib_math", "stdlib_mathvar", "stdext_groupingmap", "stdext_kmp", "texlang_savestack", "texlang_cmdmap", "texlang_vmgroups", "stdlib_prefix", "stdlib_cond", "stdlib_expandafter", "texlang_macro", "texlang_macrocall", "stdlib_def", "stdlib_defprim", "texlang_streams"],
    "kani": [],
    "witness_always": ["texlang_parse_num", "stdlib_totality"],
    # C09 judges the panics (fn "run"); the VALUES the same driver compares with TeX's are C06's
    "witness_fns": {"texlang_parse_num": ["parse_impl", "parse_constant", "scan_dimen"], "stdlib_totality": ["run"]},
    "witness_bound": {"stdlib_totality": "real VM + stdlib: 12 alphabetic constants (TeX 442: the token after ` is read without expansion - macro, primitive, undefined, active character); 9 extreme \\count x 26 uses, 7 extreme \\dimen x 20 uses, \\the on 7 kinds of non-variables, 60 erroring programs incl. non-ASCII lines, a non-ASCII OFFENDING token, the ^^ notation at the end of a line / of the input with and without an end-of-line character, and inputs that END inside a construct after multi-byte lines, each in all four interaction modes and by default (error rendered to text); primitive grid: each of 51 installed primitives x 62 argument shapes x {batch mode, default}, every ordered pair of primitives, and every primitive followed by \\noexpand / \\expandafter and a primitive or macro (14331 programs); 15000 (thorough: 120000) pseudo-random token soups of <= 10 tokens over a 91-word vocabulary (primitives incl. \\input / \\openin / \\read / \\def, three macros, braces, numbers at the limits, units, #, ~, line ends, ^^ forms, non-ASCII) in batch, scroll, nonstop and errorstop mode in turn: success or structured error, never a panic", "texlang_parse_num": "real VM scanners on numbers at and beyond every limit (i32 boundaries in 3 radices, dimensions at +-2^30 sp, character codes incl. surrogates): value or recoverable error, never a panic"},
    "unverified_callers": [
        "FUNCTIONS UNDER CONTRACT ONLY: the safety obligations (no overflow, out-of-bounds, failed unwrap/expect, unreachable!, division by zero, for all inputs meeting the stated precondition) of the functions listed in coverage.functions_under_contract. NOT covered: VM::run_impl, the.rs, error rendering (error/display.rs), filelocation.rs, every primitive not listed - 'never panics' is NOT claimed for the interpreter as a whole",
        "shutdown-protocol consistency (ShutdownStatus transitions) is a whole-history property of arbitrary function-pointer callees: not decided",
    ],
    "assumptions": ["the stream prelude (DESIGN §3.3)"],
}


def props():
    return PROPS
