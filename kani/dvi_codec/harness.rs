// Kani harnesses for the DVI codec (property C16). Appended to a scratch copy of crates/dvi as a child module of the
// crate root, so `super::` is the real crate.  Discipline (DESIGN §2): discriminant concrete, operands fully symbolic.
use super::*;

fn enc(op: &Op) -> Vec<u8> {
    let mut b = Vec::new();
    serialize::serialize(op, &mut b);
    b
}

/// decode(encode(op) ++ suffix) == (op, suffix): every byte of the encoding is consumed and nothing else.
/// CBMC only prunes the 256-arm decoder (and the slice-length checks behind it) when the opcode byte AND the slice
/// length are constants on the path being explored (DESIGN §2, probes a-d).  The encoder's output has a symbolic
/// opcode/length (they depend on the operand width), so both are re-materialised as constants: `cands` lists every
/// (opcode, encoded length) the variant may produce, and the decoder is run under `code == c && n == l` for each.
fn roundtrip(op: Op, expect_len: usize, cands: &[(u8, usize)]) {
    let mut v: Vec<u8> = Vec::with_capacity(64);
    serialize::serialize(&op, &mut v);
    let n = v.len();
    assert!(n == expect_len, "encoded length is the minimal width");
    let s0: u8 = kani::any();
    let s1: u8 = kani::any();
    let code = v[0];
    let mut matched = false;
    let mut k = 0;
    while k < cands.len() {
        let (c, l) = cands[k];
        if code == c && n == l {
            matched = true;
            // all writes use concrete indices; b[0] is the constant c
            let mut b = [0u8; 64];
            b[0] = c;
            let mut i = 1;
            while i < l { b[i] = v[i]; i += 1; }
            b[l] = s0;
            b[l + 1] = s1;
            match deserialize::deserialize(&b[..l + 2]) {
                Ok(Some((op2, rest))) => {
                    assert!(op2 == op, "decode(encode(op)) == op");
                    assert!(rest.len() == 2 && rest[0] == s0 && rest[1] == s1, "exactly the encoding is consumed");
                }
                _ => panic!("decode(encode(op)) must succeed"),
            }
        }
        k += 1;
    }
    assert!(matched, "opcode and length are among the forms DVI defines for this operation");
}

/// One-byte encodings (set_char_N, fnt_num_N) are decided by two contracts whose composition is the round trip:
///   encoder:  serialize(op(x)) == [base + x]            (x fully symbolic)
///   decoder:  deserialize([base + x, s0, s1]) == (op(x), [s0, s1])   (x concrete loop, suffix symbolic)
fn enc1(op: Op, expect: u8) {
    let mut v: Vec<u8> = Vec::with_capacity(8);
    serialize::serialize(&op, &mut v);
    assert!(v.len() == 1 && v[0] == expect, "one-byte form base+x");
}
fn dec1(c: u8, expect: Op) {
    let s0: u8 = kani::any();
    let s1: u8 = kani::any();
    let b = [c, s0, s1];
    match deserialize::deserialize(&b) {
        Ok(Some((op2, rest))) => {
            assert!(op2 == expect, "decode([base+x]) == op(x)");
            assert!(rest.len() == 2 && rest[0] == s0 && rest[1] == s1, "exactly one byte is consumed");
        }
        _ => panic!("decode must succeed"),
    }
}

fn min_unsigned_width(u: u32) -> usize {
    if u < 1 << 8 { 1 } else if u < 1 << 16 { 2 } else if u < 1 << 24 { 3 } else { 4 }
}
fn min_signed_width(i: i32) -> usize {
    if -(1 << 7) <= i && i < (1 << 7) { 1 } else if -(1 << 15) <= i && i < (1 << 15) { 2 }
    else if -(1 << 23) <= i && i < (1 << 23) { 3 } else { 4 }
}
fn any_var() -> Var {
    match kani::any::<u8>() % 4 { 0 => Var::W, 1 => Var::X, 2 => Var::Y, _ => Var::Z }
}

#[kani::proof]
#[kani::unwind(70)]
fn rt_typeset_char_wide() {
    let c: u32 = kani::any();
    let move_h: bool = kani::any();
    kani::assume(!(move_h && c < 128));
    let w = min_unsigned_width(c);
    if move_h { roundtrip(Op::TypesetChar { char: c, move_h }, 1 + w, &[(128, 2), (129, 3), (130, 4), (131, 5)]); }
    else { roundtrip(Op::TypesetChar { char: c, move_h }, 1 + w, &[(133, 2), (134, 3), (135, 4), (136, 5)]); }
}

#[kani::proof]
#[kani::unwind(70)]
fn rt_typeset_char_small_enc() {
    let c: u8 = kani::any();
    kani::assume(c < 128);
    enc1(Op::TypesetChar { char: c as u32, move_h: true }, c);
}
macro_rules! tsc_dec { ($($name:ident: $lo:expr;)*) => { $(
    #[kani::proof] #[kani::unwind(20)]
    fn $name() { let mut c: u8 = $lo; while c < $lo + 16 { dec1(c, Op::TypesetChar { char: c as u32, move_h: true }); c += 1; } }
)* } }
tsc_dec! { tsc_dec_000: 0; tsc_dec_016: 16; tsc_dec_032: 32; tsc_dec_048: 48; tsc_dec_064: 64; tsc_dec_080: 80; tsc_dec_096: 96; tsc_dec_112: 112; }

#[kani::proof]
#[kani::unwind(70)]
fn rt_typeset_rule() {
    roundtrip(Op::TypesetRule { height: kani::any(), width: kani::any(), move_h: kani::any() }, 9, &[(132, 9), (137, 9)]);
}

#[kani::proof]
#[kani::unwind(70)]
fn rt_nullary() {
    roundtrip(Op::NoOp, 1, &[(138, 1)]);
    roundtrip(Op::EndPage, 1, &[(140, 1)]);
    roundtrip(Op::Push, 1, &[(141, 1)]);
    roundtrip(Op::Pop, 1, &[(142, 1)]);
    roundtrip(Op::Move(any_var()), 1, &[(147, 1), (152, 1), (161, 1), (166, 1)]);
}

#[kani::proof]
#[kani::unwind(70)]
fn rt_begin_page() {
    let parameters: [i32; 10] = kani::any();
    roundtrip(Op::BeginPage { parameters, previous_begin_page: kani::any() }, 45, &[(139, 45)]);
}

#[kani::proof]
#[kani::unwind(70)]
fn rt_right() {
    let i: i32 = kani::any();
    roundtrip(Op::Right(i), 1 + min_signed_width(i), &[(143, 2), (144, 3), (145, 4), (146, 5)]);
}

#[kani::proof]
#[kani::unwind(70)]
fn rt_down() {
    let i: i32 = kani::any();
    roundtrip(Op::Down(i), 1 + min_signed_width(i), &[(157, 2), (158, 3), (159, 4), (160, 5)]);
}

macro_rules! rt_set_var { ($($name:ident: $var:expr, $base:expr;)*) => { $(
    #[kani::proof] #[kani::unwind(70)]
    fn $name() { let i: i32 = kani::any(); roundtrip(Op::SetVar($var, i), 1 + min_signed_width(i), &[($base, 2), ($base + 1, 3), ($base + 2, 4), ($base + 3, 5)]); }
)* } }
rt_set_var! { rt_set_var_w: Var::W, 148; rt_set_var_x: Var::X, 153; rt_set_var_y: Var::Y, 162; rt_set_var_z: Var::Z, 167; }

#[kani::proof]
#[kani::unwind(70)]
fn rt_enable_font_wide() {
    let u: u32 = kani::any();
    kani::assume(u >= 64);
    roundtrip(Op::EnableFont(u), 1 + min_unsigned_width(u), &[(235, 2), (236, 3), (237, 4), (238, 5)]);
}

#[kani::proof]
#[kani::unwind(70)]
fn rt_enable_font_small_enc() {
    let u: u8 = kani::any();
    kani::assume(u < 64);
    enc1(Op::EnableFont(u as u32), 171 + u);
}
macro_rules! ef_dec { ($($name:ident: $lo:expr;)*) => { $(
    #[kani::proof] #[kani::unwind(20)]
    fn $name() { let mut u: u8 = $lo; while u < $lo + 16 { dec1(171 + u, Op::EnableFont(u as u32)); u += 1; } }
)* } }
ef_dec! { ef_dec_00: 0; ef_dec_16: 16; ef_dec_32: 32; ef_dec_48: 48; }

#[kani::proof]
#[kani::unwind(70)]
fn rt_begin_postamble() {
    roundtrip(Op::BeginPostamble {
        final_begin_page: kani::any(), unit_numerator: kani::any(), unit_denominator: kani::any(),
        magnification: kani::any(), largest_height: kani::any(), largest_width: kani::any(),
        max_stack_depth: kani::any(), num_pages: kani::any(),
    }, 29, &[(248, 29)]);
}

/// EndPostamble swallows every trailing 223 byte: it round-trips at the end of the file and before any byte other than 223.
#[kani::proof]
#[kani::unwind(70)]
fn rt_end_postamble_bounded() {
    let dvi_format: u8 = kani::any();
    let postamble: i32 = kani::any();
    let suffix: u8 = kani::any();
    kani::assume(suffix != 223);
    let mut n = 0usize;
    while n <= 4 {
        let op = Op::EndPostamble { dvi_format, postamble, num_223_bytes: n };
        let mut v: Vec<u8> = Vec::with_capacity(16);
        serialize::serialize(&op, &mut v);
        assert!(v.len() == 6 + n && v[0] == 249);
        let mut b = [0u8; 16];
        b[0] = 249;
        let mut i = 1;
        while i < 6 + n { b[i] = v[i]; i += 1; }
        match deserialize::deserialize(&b[..6 + n]) {
            Ok(Some((op2, rest))) => { assert!(op2 == op); assert!(rest.is_empty()); }
            _ => panic!("decode(encode(op)) must succeed"),
        }
        // followed by anything that does not start with 223: the padding ends there and what follows is handed back whole
        b[6 + n] = suffix;
        match deserialize::deserialize(&b[..7 + n]) {
            Ok(Some((op2, rest))) => { assert!(op2 == op); assert!(rest.len() == 1 && rest[0] == suffix); }
            _ => panic!("decode(encode(op) ++ suffix) must succeed"),
        }
        n += 1;
    }
}

/// Extension: payload bytes are arbitrary; length prefix in the minimal width.
#[kani::proof]
#[kani::unwind(70)]
fn rt_extension_bounded() {
    let data: [u8; 3] = kani::any();
    let mut n = 0usize;
    while n <= 3 {
        let v: Vec<u8> = data[..n].to_vec();
        roundtrip(Op::Extension(v), 2 + n, &[(239, 2 + n)]);
        n += 1;
    }
}

fn ascii(b: u8) -> char { (b & 0x7f) as char }

/// Preamble / DefineFont with ASCII strings (non-UTF-8 bytes are replaced by design: from_utf8_lossy)
#[kani::proof]
#[kani::unwind(70)]
fn rt_preamble_bounded() {
    let cs: [u8; 2] = kani::any();
    let mut n = 0usize;
    while n <= 2 {
        let mut comment = String::with_capacity(4);
        let mut i = 0;
        while i < n { comment.push(ascii(cs[i])); i += 1; }
        roundtrip(Op::Preamble { dvi_format: kani::any(), unit_numerator: kani::any(), unit_denominator: kani::any(),
            magnification: kani::any(), comment }, 15 + n, &[(247, 15 + n)]);
        n += 1;
    }
}

#[kani::proof]
#[kani::unwind(70)]
fn rt_define_font_bounded() {
    let cs: [u8; 2] = kani::any();
    let number: u32 = kani::any();
    let w = min_unsigned_width(number);
    let mut area = String::with_capacity(4);
    area.push(ascii(cs[0]));
    let mut name = String::with_capacity(4);
    name.push(ascii(cs[1]));
    roundtrip(Op::DefineFont { number, checksum: kani::any(), at_size: kani::any(), design_size: kani::any(), area, name },
        1 + w + 12 + 2 + 2, &[(243, 18), (244, 19), (245, 20), (246, 21)]);
}

// ---------------------------------------------------------------- decoder totality on arbitrary bytes
/// opcodes lo..=hi and every input length 1+len, len in len_lo..=len_hi (all concrete loops) with a fully symbolic tail:
/// the decoder returns, never panics; Ok => the rest is a suffix of the input; Err => Truncated(op) for 128 <= op < 250
/// or InvalidOpCode(op) for op >= 250.
fn total_range<const N: usize>(lo: u8, hi: u8, len_lo: usize, len_hi: usize) {
    let tail: [u8; N] = kani::any();
    let mut op = lo;
    loop {
        let mut buf = [0u8; 48];
        buf[0] = op;
        let mut i = 0;
        while i < N { buf[1 + i] = tail[i]; i += 1; }
        let mut len = len_lo;
        while len <= len_hi {
            let input = &buf[..1 + len];
            match deserialize::deserialize(input) {
                Ok(Some((_, rest))) => {
                    assert!(rest.len() <= len, "rest is no longer than the input tail");
                    let off = input.len() - rest.len();
                    assert!(rest.as_ptr() == input[off..].as_ptr(), "rest is a suffix of the input");
                }
                Ok(None) => panic!("non-empty input cannot decode to None"),
                Err(InvalidDviData::InvalidOpCode(c)) => assert!(c == op && op >= 250),
                Err(InvalidDviData::Truncated(c)) => assert!(c == op && op >= 128 && op < 250),
            }
            len += 1;
        }
        if op == hi { break; }
        op += 1;
    }
}
macro_rules! total { ($($name:ident: $n:expr, $lo:expr, $hi:expr, $llo:expr, $lhi:expr;)*) => { $(
    #[kani::proof] #[kani::unwind(50)]
    fn $name() { total_range::<$n>($lo, $hi, $llo, $lhi); }
)* } }
total! {
    total_000: 1, 0, 15, 0, 1;     total_016: 1, 16, 31, 0, 1;    total_032: 1, 32, 47, 0, 1;    total_048: 1, 48, 63, 0, 1;
    total_064: 1, 64, 79, 0, 1;    total_080: 1, 80, 95, 0, 1;    total_096: 1, 96, 111, 0, 1;   total_112: 1, 112, 127, 0, 1;
    total_128_131: 5, 128, 131, 0, 5;  total_132: 9, 132, 132, 0, 9;  total_133_136: 5, 133, 136, 0, 5;  total_137_138: 9, 137, 138, 0, 9;
    total_139_a: 45, 139, 139, 0, 15;  total_139_b: 45, 139, 139, 16, 30;  total_139_c: 45, 139, 139, 31, 45;
    total_140_146: 5, 140, 146, 0, 5;  total_147_151: 5, 147, 151, 0, 5;  total_152_156: 5, 152, 156, 0, 5;
    total_157_163: 5, 157, 163, 0, 5;  total_164_170: 5, 164, 170, 0, 5;
    total_171: 1, 171, 186, 0, 1;  total_187: 1, 187, 202, 0, 1;  total_203: 1, 203, 218, 0, 1;  total_219: 1, 219, 234, 0, 1;
    total_235_238: 5, 235, 238, 0, 5;
    total_248_a: 29, 248, 248, 0, 14;  total_248_b: 29, 248, 248, 15, 29;
    total_250_255: 1, 250, 255, 0, 1;
    // no fixed payload size (223-run, strings): bounded tails
    total_249_bounded: 9, 249, 249, 0, 9;
    total_239_bounded: 6, 239, 239, 0, 6;  total_240_bounded: 6, 240, 240, 0, 6;  total_241_bounded: 6, 241, 241, 0, 6;  total_242_bounded: 6, 242, 242, 0, 6;
    total_243_bounded: 15, 243, 243, 0, 15;  total_244_bounded: 15, 244, 244, 0, 15;  total_245_bounded: 15, 245, 245, 0, 15;  total_246_bounded: 15, 246, 246, 0, 15;
    total_247_bounded: 15, 247, 247, 0, 15;
}

#[kani::proof]
fn total_empty() {
    assert!(matches!(deserialize::deserialize(&[]), Ok(None)));
}
