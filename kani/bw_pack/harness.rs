// Kani BOUNDED stand-in for HBox::pack (property C15): the real function cannot be taken by Verus (array/slice
// patterns, Rc<dyn Whatsit> in the node enum). Lists of up to 2 nodes, node kinds {Char, Rule, Kern, Glue, HBox, VBox,
// Penalty}, every dimension symbolic in [-2^20, 2^20], glue of all four orders; checked against an independent
// transcription of TeX.2021.649-667 (per-order totals).  Labelled bounded, never counted as proved.
use super::*;
use super::ds::*;
use common::{GlueOrder, Scaled};

struct Repo { w: Scaled, h: Scaled, d: Scaled, present: bool }
impl FontRepo for Repo {
    fn width(&self, _c: char, _f: u32) -> Option<Scaled> { if self.present { Some(self.w) } else { None } }
    fn height(&self, _c: char, _f: u32) -> Option<Scaled> { Some(self.h) }
    fn depth(&self, _c: char, _f: u32) -> Option<Scaled> { Some(self.d) }
}

const B: i32 = 1 << 20;
fn dim() -> Scaled { let x: i32 = kani::any(); kani::assume(-B <= x && x <= B); Scaled(x) }
fn order() -> GlueOrder { match kani::any::<u8>() & 3 { 0 => GlueOrder::Normal, 1 => GlueOrder::Fil, 2 => GlueOrder::Fill, _ => GlueOrder::Filll } }
fn oi(o: GlueOrder) -> usize { match o { GlueOrder::Normal => 0, GlueOrder::Fil => 1, GlueOrder::Fill => 2, GlueOrder::Filll => 3 } }

/// independent model of one node's contribution (TeX.2021.651-656)
struct Acc { w: i64, h: i64, d: i64, st: [i64; 4], sh: [i64; 4] }

fn node(kind: u8, repo: &Repo, acc: &mut Acc) -> Horizontal {
    match kind {
        0 => {
            if repo.present { acc.w += repo.w.0 as i64; acc.h = acc.h.max(repo.h.0 as i64); acc.d = acc.d.max(repo.d.0 as i64); }
            Horizontal::Char(Char { char: 'a', font: 0 })
        }
        1 => {
            let (h, w, d) = (dim(), dim(), dim());
            acc.w += w.0 as i64; acc.h = acc.h.max(h.0 as i64); acc.d = acc.d.max(d.0 as i64);
            Horizontal::Rule(Rule { height: h, width: w, depth: d })
        }
        2 => { let w = dim(); acc.w += w.0 as i64; Horizontal::Kern(Kern { width: w, kind: KernKind::Normal }) }
        3 => {
            let (w, st, sh) = (dim(), dim(), dim());
            let (so, ho) = (order(), order());
            acc.w += w.0 as i64; acc.st[oi(so)] += st.0 as i64; acc.sh[oi(ho)] += sh.0 as i64;
            Horizontal::Glue(Glue { value: common::Glue { width: w, stretch: st, stretch_order: so, shrink: sh, shrink_order: ho }, kind: GlueKind::Normal })
        }
        4 => {
            let (h, w, d, s) = (dim(), dim(), dim(), dim());
            acc.w += w.0 as i64; acc.h = acc.h.max(h.0 as i64 - s.0 as i64); acc.d = acc.d.max(d.0 as i64 + s.0 as i64);
            Horizontal::HBox(HBox { height: h, width: w, depth: d, shift_amount: s, list: vec![], glue_ratio: Default::default(), glue_order: GlueOrder::Normal })
        }
        5 => {
            let (h, w, d, s) = (dim(), dim(), dim(), dim());
            acc.w += w.0 as i64; acc.h = acc.h.max(h.0 as i64 - s.0 as i64); acc.d = acc.d.max(d.0 as i64 + s.0 as i64);
            Horizontal::VBox(VBox { height: h, width: w, depth: d, shift_amount: s, list: vec![], glue_ratio: Default::default(), glue_order: GlueOrder::Normal })
        }
        _ => Horizontal::Penalty(Penalty(0)),
    }
}

fn top(t: &[i64; 4]) -> usize { if t[3] != 0 { 3 } else if t[2] != 0 { 2 } else if t[1] != 0 { 1 } else { 0 } }

fn check(kinds: &[u8]) {
    let repo = Repo { w: dim(), h: dim(), d: dim(), present: kani::any() };
    let mut acc = Acc { w: 0, h: 0, d: 0, st: [0; 4], sh: [0; 4] };
    let mut list: Vec<Horizontal> = Vec::with_capacity(2);
    let mut i = 0;
    while i < kinds.len() { list.push(node(kinds[i], &repo, &mut acc)); i += 1; }
    let target = dim();
    let exact: bool = kani::any();
    let b = HBox::pack(&repo, list, if exact { PackWidth::Exact(target) } else { PackWidth::Additional(target) });
    // natural width is the sum of the item widths (TeX.2021.651-656); box width (TeX.2021.657)
    let width = if exact { target.0 as i64 } else { acc.w + target.0 as i64 };
    assert!(b.width.0 as i64 == width, "box width: exact, or natural width (sum of item WIDTHS) + additional");
    assert!(b.height.0 as i64 == acc.h, "height is the maximum over items (shifted boxes adjusted), at least 0");
    assert!(b.depth.0 as i64 == acc.d, "depth is the maximum over items (shifted boxes adjusted), at least 0");
    let x = width - acc.w;
    let (num, den) = (b.glue_ratio.num.0 as i64, b.glue_ratio.den.0 as i64);
    assert!(den != 0, "glue ratio has a non-zero denominator");
    if x == 0 {
        assert!(num == 0 && b.glue_order == GlueOrder::Normal, "exact fit: glue unset");
    } else if x > 0 {
        let o = top(&acc.st);                                   // TeX.2021.659: highest order with NON-ZERO total stretch
        if acc.st[o] != 0 {
            assert!(oi(b.glue_order) == o, "glue order: highest order of infinity with non-zero total stretch");
            assert!(num * acc.st[o] * den.signum() == x * den.abs() * 1 * (if num == 0 { 0 } else { 1 }) || num.abs() * acc.st[o].abs() == x * den.abs(),
                "stretched contents fill the box exactly: |ratio| * total_stretch == excess");
            assert!(num.abs() * acc.st[o].abs() == x * den.abs(), "stretched contents fill the box exactly");
        } else {
            assert!(num == 0, "no stretchability: glue left unset");
        }
    } else {
        let o = top(&acc.sh);                                   // TeX.2021.665
        if acc.sh[o] != 0 {
            assert!(oi(b.glue_order) == o, "glue order: highest order of infinity with non-zero total shrink");
            if o == 0 && acc.sh[0] < -x {
                assert!(num.abs() == den.abs(), "overfull box shrinks by exactly its shrinkability (ratio 1)");
            } else {
                assert!(num.abs() * acc.sh[o].abs() == (-x) * den.abs(), "shrunk contents fill the box exactly");
            }
        } else {
            assert!(num == 0, "no shrinkability: glue left unset");
        }
    }
}

macro_rules! pack1 { ($($name:ident: $k:expr;)*) => { $( #[kani::proof] #[kani::unwind(6)] fn $name() { check(&[$k]); } )* } }
pack1! { pack1_char: 0; pack1_rule: 1; pack1_kern: 2; pack1_glue: 3; pack1_hbox: 4; pack1_vbox: 5; pack1_penalty: 6; }
#[kani::proof] #[kani::unwind(6)] fn pack0_empty() { check(&[]); }
macro_rules! pack2 { ($($name:ident: $a:expr, $b:expr;)*) => { $( #[kani::proof] #[kani::unwind(6)] fn $name() { check(&[$a, $b]); } )* } }
pack2! { pack2_glue_glue: 3, 3; pack2_glue_rule: 3, 1; pack2_rule_glue: 1, 3; pack2_hbox_glue: 4, 3; pack2_char_glue: 0, 3; pack2_kern_glue: 2, 3; pack2_rule_hbox: 1, 4; pack2_glue_penalty: 3, 6; }
