// Kani harnesses for the TFM binary reader's header / slicing layer and the 4-byte word codecs (properties C10, C11).
// Appended to a scratch copy of crates/tfm as a child module of the crate root. Visibility of the private codec
// traits is widened to pub(crate) in the scratch copy (group.json "subst"; no semantic content).
use super::*;
use super::deserialize::{RawFile, SubFileSizes, DeserializationError, Deserializable};
use super::serialize::Serializable;

fn check_raw(b: &[u8]) {
    let (r, _warnings) = RawFile::deserialize(b);
    match r {
        Err(_) => {}
        Ok(raw) => {
            let s = &raw.sub_file_sizes;
            // the twelve sections are consecutive, each 4*size bytes long, and together cover b[0 .. 4*lf]
            let lf = s.lf as usize;
            assert!(lf >= 6 && 4 * lf <= b.len());
            let base = b.as_ptr() as usize;
            let mut off = 0usize;
            let secs: [(&[u8], i32); 11] = [
                (raw.raw_sub_file_sizes, 6), (raw.header, s.lh as i32), (raw.char_infos, s.ec as i32 - s.bc as i32 + 1),
                (raw.widths, s.nw as i32), (raw.heights, s.nh as i32), (raw.depths, s.nd as i32),
                (raw.italic_corrections, s.ni as i32), (raw.lig_kern_instructions, s.nl as i32), (raw.kerns, s.nk as i32),
                (raw.extensible_recipes, s.ne as i32), (raw.params, s.np as i32)];
            let mut i = 0;
            while i < 11 {
                let (sl, n) = secs[i];
                assert!(n >= 0, "section size is non-negative");
                assert!(sl.len() == 4 * (n as usize), "section has 4*size bytes");
                assert!(sl.as_ptr() as usize == base + off, "sections are consecutive (disjoint, no gap)");
                off += sl.len();
                i += 1;
            }
            assert!(off == 4 * lf, "sections cover exactly the declared file length");
            // character range
            assert!(s.bc as i32 <= s.ec as i32 + 1 || (s.bc == i16::MAX && s.ec == i16::MAX));
            if (s.bc as i32) < s.ec as i32 + 1 && !(s.bc == i16::MAX && s.ec == i16::MAX) { assert!(s.ec <= 255 && raw.begin_char.0 as i16 == s.bc && raw.end_char.0 as i16 == s.ec); }
            else { assert!(raw.begin_char.0 == 1 && raw.end_char.0 == 0); }
            assert!(s.nw > 0 && s.nh > 0 && s.nd > 0 && s.ni > 0 && s.ne <= 255 && s.lh >= 2);
        }
    }
}

/// every byte string of every length lo..=hi (lengths concrete, bytes symbolic): lengths below 24 cover the
/// truncated-header paths (lf in 1..=5 against short files)
fn raw_lengths<const N: usize>(lo: usize, hi: usize, step: usize) {
    let buf: [u8; N] = kani::any();
    let mut len = lo;
    while len <= hi {
        check_raw(&buf[..len]);
        len += step;
    }
}
#[kani::proof] #[kani::unwind(30)] fn raw_len_00_07() { raw_lengths::<7>(0, 7, 1); }
#[kani::proof] #[kani::unwind(30)] fn raw_len_08_15() { raw_lengths::<15>(8, 15, 1); }
#[kani::proof] #[kani::unwind(30)] fn raw_len_16_19() { raw_lengths::<19>(16, 19, 1); }
#[kani::proof] #[kani::unwind(30)] fn raw_len_20_23() { raw_lengths::<23>(20, 23, 1); }
#[kani::proof] #[kani::unwind(30)] fn raw_len_24_26() { raw_lengths::<26>(24, 26, 1); }
#[kani::proof] #[kani::unwind(30)] fn raw_len_27_28() { raw_lengths::<28>(27, 28, 1); }
/// the header arithmetic: 24 symbolic header bytes + symbolic tail against longer files
#[kani::proof] #[kani::unwind(30)] fn raw_len_32_40_bounded() { raw_lengths::<40>(32, 40, 8); }
#[kani::proof] #[kani::unwind(30)] fn raw_len_48_64_bounded() { raw_lengths::<64>(48, 64, 16); }
#[kani::proof] #[kani::unwind(30)] fn raw_len_96_97_bounded() { raw_lengths::<97>(96, 97, 1); }

/// SubFileSizes <-> [u8; 24] are inverse on all 2^192 values
#[kani::proof]
fn sfs_bytes_roundtrip() {
    let raw: [u8; 24] = kani::any();
    let s: SubFileSizes = raw.into();
    let back: [u8; 24] = s.clone().into();
    assert!(back == raw);
    let s2: SubFileSizes = back.into();
    assert!(s2 == s);
}

fn ser<T: Serializable>(t: &T, bc: Option<Char>) -> Vec<u8> {
    let mut v = Vec::with_capacity(8);
    t.serialize(&mut v, bc);
    v
}

#[kani::proof]
#[kani::unwind(8)]
fn word_u32_fixword() {
    let w: [u8; 4] = kani::any();
    let u = <u32 as Deserializable>::deserialize(&w);
    let v = ser(&u, None);
    assert!(v.len() == 4 && v[0] == w[0] && v[1] == w[1] && v[2] == w[2] && v[3] == w[3]);
    let f = <FixWord as Deserializable>::deserialize(&w);
    let v = ser(&f, None);
    assert!(v.len() == 4 && v[0] == w[0] && v[1] == w[1] && v[2] == w[2] && v[3] == w[3]);
    assert!(f.0 == i32::from_be_bytes(w));
}

#[kani::proof]
#[kani::unwind(8)]
fn word_extensible() {
    let w: [u8; 4] = kani::any();
    let e = <ExtensibleRecipe as Deserializable>::deserialize(&w);
    let v = ser(&e, None);
    assert!(v.len() == 4 && v[0] == w[0] && v[1] == w[1] && v[2] == w[2] && v[3] == w[3], "encode(decode(w)) == w");
    let e2 = <ExtensibleRecipe as Deserializable>::deserialize(&v);
    assert!(e2 == e);
}

/// char_info word: decode is total; the dimension indices and the tag are the documented bit fields; encoding what
/// was decoded and decoding again is the identity on values (fixed point at word granularity)
#[kani::proof]
#[kani::unwind(8)]
fn word_char_info() {
    let w: [u8; 4] = kani::any();
    let (dims, tag) = <(Option<CharDimensions>, Option<CharTag>) as Deserializable>::deserialize(&w);
    match &dims {
        None => assert!(w[0] == 0),
        Some(d) => {
            assert!(d.width_index.get() == w[0] && w[0] != 0);
            assert!(d.height_index == w[1] >> 4 && d.depth_index == w[1] & 15 && d.italic_index == w[2] >> 2);
        }
    }
    match &tag {
        None => assert!(w[2] & 3 == 0),
        Some(CharTag::Ligature(p)) => assert!(w[2] & 3 == 1 && *p == w[3]),
        Some(CharTag::List(c)) => assert!(w[2] & 3 == 2 && c.0 == w[3]),
        Some(CharTag::Extension(p)) => assert!(w[2] & 3 == 3 && *p == w[3]),
    }
    let st = match &tag { None => serialize::SerializableCharTag::None, Some(t) => serialize::SerializableCharTag::Valid(t.clone()) };
    let v = ser(&(dims.clone(), st), None);
    assert!(v.len() == 4);
    let (dims2, tag2) = <(Option<CharDimensions>, Option<CharTag>) as Deserializable>::deserialize(&v);
    assert!(dims2 == dims && tag2 == tag, "decode(encode(decode(w))) == decode(w)");
    if w[0] != 0 { assert!(v[0] == w[0] && v[1] == w[1] && v[2] == w[2]); }
}

/// lig/kern instruction word: decode total; encode total on every decoded value; decode.encode is idempotent
#[kani::proof]
#[kani::unwind(8)]
fn word_lig_kern() {
    let w: [u8; 4] = kani::any();
    let bc: Option<Char> = if kani::any() { Some(Char(kani::any())) } else { None };
    let i1 = <ligkern::lang::Instruction as Deserializable>::deserialize(&w);
    if let ligkern::lang::Operation::KernAtIndex(ix) = i1.operation { assert!(ix < 0x8000); }
    let v1 = ser(&i1, bc);
    assert!(v1.len() == 4);
    let i2 = <ligkern::lang::Instruction as Deserializable>::deserialize(&v1);
    let v2 = ser(&i2, bc);
    assert!(v2.len() == 4 && v2[0] == v1[0] && v2[1] == v1[1] && v2[2] == v1[2] && v2[3] == v1[3], "canonical form is a fixed point");
    if w[0] <= 128 {
        // ordinary instruction: skip byte, right char and remainder survive unchanged
        assert!(v1[0] == w[0] && v1[1] == w[1] && v1[3] == w[3]);
        if w[2] >= 128 { assert!(v1[2] == w[2]); }
        match i1.operation {
            // an invalid lig op byte is normalised to /LIG/>> with the invalid flag dropped: not an identity by design
            ligkern::lang::Operation::Ligature { post_lig_tag_invalid: true, .. } => {}
            _ => assert!(i2 == i1),
        }
    }
}

/// the serializer is total on every lig/kern Instruction VALUE (not only decoded ones)
#[kani::proof]
#[kani::unwind(8)]
fn ser_lig_kern_total() {
    let next: Option<u8> = if kani::any() { Some(kani::any()) } else { None };
    let right_char = Char(kani::any());
    let which: u8 = kani::any();
    kani::assume(which < 2);
    let operation = if which == 0 { ligkern::lang::Operation::KernAtIndex(kani::any()) }
        else { ligkern::lang::Operation::EntrypointRedirect(kani::any(), kani::any()) };
    let ins = ligkern::lang::Instruction { next_instruction: next, right_char, operation };
    let v = ser(&ins, None);
    assert!(v.len() == 4);
}

#[kani::proof]
#[kani::unwind(12)]
fn deserialize_array_bounded() {
    let buf: [u8; 16] = kani::any();
    let mut n = 0usize;
    while n <= 4 {
        let v: Vec<FixWord> = deserialize::deserialize_array(&buf[..4 * n]);
        assert!(v.len() == n);
        n += 1;
    }
}

/// header word 17: the face byte <-> Face are inverse on all 256 values (decoder total)
#[kani::proof]
fn face_byte_roundtrip() {
    let b: u8 = kani::any();
    let f: Face = b.into();
    let back: u8 = f.into();
    assert!(back == b, "u8 -> Face -> u8 is the identity");
}

/// the slicing layer for EVERY size-consistent header (all twelve sizes symbolic, up to the 32767-word maximum): no
/// overflow or out-of-bounds in the size arithmetic, every section is 4*size bytes long.  The buffer contents are
/// irrelevant to slicing and are concrete zeros; only its length (4*lf) is symbolic.
static BIG: [u8; 131072] = [0u8; 131072];
#[kani::proof]
#[kani::unwind(4)]
fn finish_deserialization_all_sizes() {
    let s = SubFileSizes { lf: kani::any(), lh: kani::any(), bc: kani::any(), ec: kani::any(), nw: kani::any(), nh: kani::any(),
        nd: kani::any(), ni: kani::any(), nl: kani::any(), nk: kani::any(), ne: kani::any(), np: kani::any() };
    // the conditions RawFile::deserialize establishes before it slices
    kani::assume(s.lh >= 2 && s.bc >= 0 && s.ec >= 0 && s.nw > 0 && s.nh > 0 && s.nd > 0 && s.ni > 0 && s.nl >= 0 && s.nk >= 0 && s.ne >= 0 && s.np >= 0);
    kani::assume(s.bc as i32 <= s.ec as i32 + 1);
    let sum: i32 = 6 + s.lh as i32 + (s.ec as i32 - s.bc as i32 + 1) + s.nw as i32 + s.nh as i32 + s.nd as i32 + s.ni as i32 + s.nl as i32 + s.nk as i32 + s.ne as i32 + s.np as i32;
    kani::assume(s.lf >= 6 && s.lf as i32 == sum);
    let len = 4 * (s.lf as usize);
    let raw = RawFile::finish_deserialization(&BIG[..len], s.clone(), Char(0), Char(0));
    assert!(raw.header.len() == 4 * (s.lh as usize) && raw.widths.len() == 4 * (s.nw as usize) && raw.kerns.len() == 4 * (s.nk as usize));
    assert!(raw.params.len() == 4 * (s.np as usize) && raw.lig_kern_instructions.len() == 4 * (s.nl as usize));
    assert!(raw.raw_sub_file_sizes.len() == 24 && raw.char_infos.len() == 4 * ((s.ec as i32 - s.bc as i32 + 1) as usize));
    kani::cover!(s.np >= 8192, "large sub-files are reachable");
}


/// the encoder's byte layout for every lig/kern instruction value (PLtoTF.2014.142, TFtoPL.2014.77): skip byte, next
/// character, op byte 4a+2b+c / 128+hi, remainder; boundary-character and redirect words
#[kani::proof]
#[kani::unwind(10)]
fn ser_lig_kern_layout() {
    use ligkern::lang::{Instruction, Operation, PostLigOperation::*};
    let next: Option<u8> = if kani::any() { Some(kani::any()) } else { None };
    let right = Char(kani::any());
    let bc: Option<Char> = if kani::any() { Some(Char(kani::any())) } else { None };
    let skip = match next { Some(n) => n, None => 128 };
    // kern
    let ix: u16 = kani::any();
    kani::assume(ix < 0x8000);
    let v = ser(&Instruction { next_instruction: next, right_char: right, operation: Operation::KernAtIndex(ix) }, bc);
    assert!(v.len() == 4 && v[0] == skip && v[1] == right.0 && v[2] == 128 + (ix >> 8) as u8 && v[3] == (ix & 255) as u8);
    // ligatures: all eight forms
    let c = Char(kani::any());
    let forms = [(RetainNeitherMoveToInserted, 0u8), (RetainRightMoveToInserted, 1), (RetainLeftMoveNowhere, 2), (RetainBothMoveNowhere, 3),
        (RetainRightMoveToRight, 5), (RetainLeftMoveToInserted, 6), (RetainBothMoveToInserted, 7), (RetainBothMoveToRight, 11)];
    let mut k = 0;
    while k < 8 {
        let (op, code) = forms[k];
        let ins = Instruction { next_instruction: next, right_char: right, operation: Operation::Ligature { char_to_insert: c, post_lig_operation: op, post_lig_tag_invalid: false } };
        let v = ser(&ins, bc);
        assert!(v.len() == 4 && v[0] == skip && v[1] == right.0 && v[2] == code && v[3] == c.0, "lig op byte = 4a+2b+c");
        let back = <Instruction as Deserializable>::deserialize(&v);
        if skip < 128 || next.is_none() { assert!(back == ins, "decode(encode(lig)) == lig"); }
        k += 1;
    }
    // first/last word of the table: boundary character (255, c) / no boundary character (254, 0) / plain redirect (255, 0)
    let idx: u16 = kani::any();
    let v = ser(&Instruction { next_instruction: None, right_char: right, operation: Operation::EntrypointRedirect(idx, true) }, bc);
    match bc { Some(b) => assert!(v[0] == 255 && v[1] == b.0, "boundary character word, also for character 0"), None => assert!(v[0] == 254 && v[1] == 0) }
    assert!(v.len() == 4 && v[2] == (idx >> 8) as u8 && v[3] == (idx & 255) as u8);
    let v = ser(&Instruction { next_instruction: None, right_char: right, operation: Operation::EntrypointRedirect(idx, false) }, bc);
    assert!(v.len() == 4 && v[0] == 255 && v[1] == 0 && v[2] == (idx >> 8) as u8 && v[3] == (idx & 255) as u8);
}
